#!/usr/bin/env python3
# regenerates MANIFEST.json from the table below (kept in one place so it stays valid)
import json, subprocess
props = [json.loads(l)['id'] for l in open('/verif/properties.jsonl')]
TRUST = ("Trusted: go/packages+go/ssa fidelity and our SSA->SMT translation (subset stated in DESIGN 2.1/2.2), 64-bit int, "
         "soundness of z3 4.8.12 / z3 5.1.0 / cvc5 1.0.3, stdlib models of DESIGN 2.2, every contract marked assumed (listed in the evidence file). ")
claimed = {
 'C09': dict(
   text="Deductive proof of the codec slice, for all inputs: zig-zag encode/decode are mutually inverse on all int32/uint32; bit interleaving and de-interleaving through the two literal 256-entry lookup tables (read from the source and encoded as mux trees) are mutually inverse on all uint32 pairs / uint64 codes; the 2nd-order derivative encoder and decoder started in equal states return the original value and end in equal states (lock step; loops unrolled completely with unwinding assertions); face-run packing 6*count+face unpacks to (face,count); siTitoPiQi stays below 2^level. The byte-level framing of Encode/Decode (stream model) and the float cell-centre identity are NOT decided; no value-level round trip is claimed.",
   note=TRUST+"Unverified remainder: byte-stream round trips of Point/Cap/Rect/CellID/CellUnion/Polyline/Loop/Polygon, format selection in Polygon.encode, xyzToFaceSiTi centre detection (float).",
   design="3 C09"),
 'C11': dict(
   text="Deductive proof, for all 64-bit cell ids and all union lengths, of the membership core of the cell-union algebra on sorted, pairwise-disjoint unions: areSiblings is exact (sound and complete against level/immediate-parent), lowerBound is the partition point, ContainsCellID / IntersectsCellID are sound and complete against 'some member contains / intersects the id' (binary-search post-condition plus the range lemmas of C01), Contains/Intersects of unions against the per-cell tests, IsValid, LeafCellsCovered does not overflow, CellUnionFromRange yields valid cells starting at begin and ending at end, contiguous (thorough tier), no index panics, termination. Normalize's covering-equivalence, intersection/difference set equality, CellIndex and s2intersect are NOT decided (named in evidence).",
   note=TRUST+"Unverified remainder: Normalize (covering equivalence and uniqueness), CellUnionFromIntersection/Difference/Union functional equality, Denormalize leaf-set preservation, CellIndex, s2intersect (maps/closures).",
   design="3 C11"),
 'C12': dict(
   text="Deductive proof of the id slice: CellFromCellID stores the id and, for valid ids, the level, face and Hilbert orientation of that id (orientation as an uninterpreted-but-deterministic function of the id, tied to the table computation by C01); CellFromPoint yields the leaf cell of cellIDFromPoint; Cell.Children()[k] carries exactly id.Children()[k] with level+1, same face and orientation parent^posToOrientation[k] (loop unrolled completely); thorough tier: that this orientation is the one the Hilbert tables assign to the child id (two unrolled table walks). ContainsPoint, uv bounds of children, RectBound/CapBound and every distance function are floating point and NOT decided.",
   note=TRUST+"Unverified remainder: all Cell geometry in floating point (uv bounds, containment, bounds, distances); PaddedCell.",
   design="3 C12"),
 'C13': dict(
   text="Deductive proof of the state-machine slice: the ShapeIndex bookkeeping invariant SI (ids below nextID present, none above, pendingAdditionsPos <= nextID, fresh => nothing pending, lock free) is established by NewShapeIndex and preserved by Add, Reset, Build, Iterator, Begin, End, maybeApplyUpdates and applyUpdatesInternal from every SI-state, so it holds after every finite sequence of these operations (induction over histories, no bound); the update path never re-enters the index lock (mutex word modelled in memory, Lock requires it free); Loop.Invert re-establishes 'index holds exactly this loop, pending from 0'; every polygon constructor path through initEdgesAndIndex yields a non-nil index; EdgeQuery.FindEdges/Distance/IsDistanceLess/IsDistanceGreater/IsConservative* leave the options pointer and the pointed-to options bit-identical (frame). Equality of float answers across histories beyond these invariants, Remove, and the bodies of the clipping recursion are not decided.",
   note=TRUST+"Assumed contracts: removeShapeInternal, addShapeInternal, updateFaceEdges (bodies outside the subset), findEdgesInternal, sortAndUniqueResults, NewShapeIndexIterator, LocateCellID, PaddedCell.ShrinkToFit, Loop.initBound; unreachability of tracker.lowerBound rests on updateFaceEdges passing disjointFromIndex=isFirstUpdate() (body not verified).",
   design="3 C13"),
 'C03': dict(
   text="Deductive proof of the EdgeCrosser state machine (floats compared exactly, orientation oracle RobustSign as an uninterpreted deterministic function with its documented range, degeneracy and permutation laws): the cache invariant 'acb == -RobustSign(a,b,c) for the remembered c' is established by NewChainEdgeCrosser/RestartAt and preserved by every method on every path (fast triage path, tangent early exit, deferred update on the slow path); consequently ChainCrossingSign, CrossingSign and EdgeOrVertexChainCrossing return, for every prior call history, exactly the stateless value: DoNotCross on the same-side/tangent exits, MaybeCross iff an endpoint is shared (else), Cross iff the four orientations alternate; lemma: the four-orientation criterion is invariant under reversing either edge and swapping the edges. The numerical facts (triageSign and expensiveSign agree with the exact sign, the tangent test's error bound) are assumed, the VertexCrossing case analysis is used as an uninterpreted function: NOT decided.",
   note=TRUST+"Assumed contracts: RobustSign (range, zero iff repeated argument, rotation/swap laws: property C02, not decided), triageSign (0 or the oracle's value), expensiveSign (the oracle's value for distinct points), VertexCrossing (deterministic). The tangent early exit is mirrored in the stateless specification (same comparison, same constant); that exit implying 'no crossing' geometrically is numerical and not decided.",
   design="3 C03"),
 'C16': dict(
   text="Deductive proof of the order-independence slice (exact IEEE comparisons, all non-NaN points): compareEdges is independent of the direction of either edge and never orders two edges both ways; intersectionStable evaluates its numerical core on the same argument tuple whichever way the two edges are passed (core as an uninterpreted deterministic function), hence is bit-identical under swapping the edges; thorough tier: the exact fallback returns the same point under swapping the edges in the collinear case (minimum over the qualifying endpoints; exact cross products and OrderedCCW as uninterpreted deterministic functions). The 8*2^-53 accuracy bound, unit length, and bit-identity of the numerical core under reversing one edge are numerical and NOT decided.",
   note=TRUST+"Assumed (used as deterministic uninterpreted functions): r3.PreciseVector operations, OrderedCCW, intersectionStableSorted. Unverified remainder: accuracy, hemisphere choice, reversal of a single edge inside the numerical core.",
   design="3 C16"),
 'C19': dict(
   text="Deductive proof in the SMT floating-point theory (exact IEEE-754 semantics, every bit pattern of operands and of a universally quantified probe point; no real-number idealisation) that the interval and rectangle algebra is sound w.r.t. point membership: r1.Interval, s1.Interval (incl. empty, full, inverted/wrapping intervals and both representations of +-pi), r2.Rect and the lat-lng s2.Rect: union contains every point of both operands, intersection contains every common point and (s1/s2) no point of neither / (r1/r2) exactly the common points, ContainsInterval/Contains and Intersects agree with point membership (with endpoint witnesses), AddPoint keeps old points and contains the new one, Complement covers, Project/ClampPoint land inside, results are valid. s1.Interval.Expanded (math.Remainder) is thorough-tier only; Cap algebra and ChordAngle arithmetic (sqrt, products) are NOT decided.",
   note=TRUST+"Standing assumptions: math.Max/Min/Abs/Remainder modelled by their IEEE/Go definitions; package-level rectangle constants keep their initial values. Unverified remainder: Cap (Contains/Union/AddCap/Expanded/Complement), ChordAngle Add/Sub, Rect.expanded, CapBound.",
   design="3 C19"),
 'C20': dict(
   text="Deductive proof of the structural slice: Polyline.SubsampleVertices returns index 0 first, strictly increasing in-range indices, never two neighbours with equal points (float equality in its exact IEEE meaning), and its loop makes progress (decreases), for all polylines and tolerances, given the index contract of findEndVertex; every snapper constructor (NewCellIDSnapper, CellIDSnapperForLevel, NewIntLatLngSnapper) establishes 'declared snap radius = minimum snap radius of the declared level/exponent' bit-for-bit. Achieved tessellation/subsampling/snapping error versus the tolerance is numerical and NOT decided.",
   note=TRUST+"Assumed contract: findEndVertex returns an index in (index, len) (numerical). Unverified remainder: EdgeTessellator, projections, distance a snapped point moves, IntLatLngSnapper.SnapPoint units.",
   design="3 C20"),
 'C15': dict(
   text="Deductive proof over the whole decode call graph (Point, Cap, Rect, CellID, Cell, CellUnion, Polyline, Loop, Polygon in both formats, compressed point decoding, face runs, derivative coder) against an adversarial input stream (every read returns an unconstrained value and error status = all byte strings of all lengths): no index/slice/nil/make-size/division panic, every make() is within the documented limits (vertices 50M, loops 10M, cells 1M) on the value actually passed, decode loops terminate (counting loops or decreases clauses), and Decode returns a non-nil error whenever a read failed or a validity check raised an error (ghost event flags). Usability of the decoded value by float geometry (initBound, index build) is outside and listed as assumed.",
   note=TRUST+"Assumed contracts (listed in evidence): NewShapeIndex, ShapeIndex.Add, ExpandForSubregions, Loop.initBound, Polygon.initLoopProperties, Polygon.initEdgesAndIndex, facePiQitoXYZ, CellFromCellID; stdlib I/O models (binary.Read, ReadUvarint, io.ReadFull, ReadByte).",
   design="3 C15"),
 'C05': dict(
   text="Deductive proof of the level-limit and discard slice: newCoverer clamps MinLevel/MaxLevel into [0,30] and LevelMod into [1,3]; adjustLevel returns a level <= its input that is MinLevel plus a multiple of LevelMod; CellUnion.Denormalize outputs only valid cells whose level is >= MinLevel and differs from it by a multiple of LevelMod (or is 30), with both loops' termination proved; Covering and InteriorCovering end with exactly that Denormalize call, so every returned cell respects MinLevel and LevelMod for every region and configuration; newCandidate discards a cell only if the region reports non-intersection (or the interior rule applies) and marks it terminal only above MinLevel. MaxLevel through the candidate heap, MaxCells, 'the covering covers the region' and the region predicates themselves (float) are NOT decided.",
   note=TRUST+"Assumed contracts: RegionCoverer.CellUnion / InteriorCellUnion return valid cells (search over float predicates); Region interface methods are deterministic. Unverified remainder: coverage of the region, MaxLevel/MaxCells honoured by the candidate heap, normalizeCovering.",
   design="3 C05"),
 'C06': dict(
   text="Deductive proof of the Shape-interface slice for *LaxLoop, *LaxPolyline, *LaxPolygon, *PointVector, *Polyline, *Loop: for every well-formed shape value (all vertex arrays, all lengths) chains partition the edge ids, ChainEdge(i,j) is bit-identical to Edge(Chain(i).Start+j), ChainPosition inverts Chain, and none of these calls can index out of range (search loops by invariant and decreases). That index answers equal brute force over float clipping is NOT decided.",
   note=TRUST+"Unverified remainder: ShapeIndex contents vs brute force (edge clipping, containsCenter: floating point); Polygon shape methods.",
   design="3 C06"),
 'C01': dict(
   text="Deductive proof, for all 2^64 words, of the integer cell-id algebra: validity, level, parent/child/range relations, children partition the parent's leaf range in curve order, Contains/Intersects equal range nesting, laminarity, Next/Prev/NextWrap/PrevWrap/Advance, CommonAncestorLevel, MaxTile (loops by invariant, termination by decreases), face/pos/level construction. Also (face,i,j)<->id through the Hilbert lookup tables (contents read from the running program on every run, encoded as mux trees, both 8-step loops unrolled completely): cellIDFromFaceIJ yields a valid leaf on face f, faceIJOrientation returns in-range coordinates, and the two are mutually inverse on all f<6, i,j<2^30 and on all valid leaves; cellIDFromPoint yields a valid leaf for every float triple incl. NaN/Inf; Edge/Vertex neighbours are valid cells of the requested level. Point->cell geometric containment and neighbour touching are floating point and are NOT decided (named in evidence assumptions).",
   note=TRUST+"Unverified remainder: point-to-cell geometric containment, neighbours touch (float projection).",
   design="3 C01"),
}
NA_REASON = {
 'C07': "geometric (wedge orientation, clipped-edge crossings, bounding-rectangle constants) over two heap-allocated indexes with maps and interface dispatch: no contract within reach of the VC generator and solvers can state or decide it (DESIGN 3, C07)",
 'C14': "quantifies over schedules; the VC generator has no thread semantics and the Go memory model is not encoded (DESIGN 3, C14)",
 'C17': "every clause is a numerical error bound on trigonometric/float expressions; undecidable for the installed solvers (DESIGN 1 probe, 3 C17)",
 'C18': "float summation loops and two-run relational float invariants (rotation/inversion invariance); outside the generator and the FP theory's reach (DESIGN 3, C18)",
}
checks=[]; na=[]
for p in props:
    if p in claimed:
        c=claimed[p]
        checks.append({"property_id":p,"quick_cmd":f"./check {p} --tier quick","thorough_cmd":f"./check {p} --tier thorough",
          "evidence_file":f"/verif/evidence/{p}.json","replay_cmd_template":"./check --replay {path}","engine":"govc",
          "level_claimed":{"category":"proof","text":c['text'],"design_ref":c['design']},"level_note":c['note'],
          "technique":"contract-based deductive verification: //@ contracts on the real functions, weakest-precondition VCs over go/ssa, discharged by z3/cvc5"})
    else:
        na.append({"property_id":p,"reason":NA_REASON.get(p,"reachable slice identified in DESIGN.md section 3 but no check built yet")})
hooks=subprocess.run(['git','-C','/repo','log','--format=%H','--grep=^verif:'],capture_output=True,text=True).stdout.split()
m={"version":1,"setup_cmd":"./setup.sh",
   "hooks":{"guard":"verif","enable":"go/packages loads /repo with -tags=verif so that the comment-only contract files */vc_*_verif.go are read; they contain no code",
            "baseline_off_cmd":"cd /repo && go test -vet=off -count=1 ./...","source_commits":hooks,"add_only":True},
   "engines":[{"name":"govc","path":"/verif/govc","serves_properties":sorted(claimed),"kind_free_text":"VC generator for Go (go/ssa -> weakest preconditions -> SMT-LIB), contracts as //@ comments, solvers z3/z3-new/cvc5 raced"}],
   "checks":checks,"notes":"see DESIGN.md; known findings in known_findings.txt","not_applicable":na}
json.dump(m,open('/verif/MANIFEST.json','w'),indent=1)
print(len(checks),"claimed",len(na),"n/a")
