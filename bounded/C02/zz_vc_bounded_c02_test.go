package s2

// Bounded stand-in for the parts of property C02 that no contract reaches (the floating-point stages and the
// symbolic-perturbation table work on math/big values). Injected by overlay; never written to /repo.
// Point set: every non-zero vector with coordinates in {-1,0,1} plus 24 vectors with a coordinate of magnitude 2
// (50 points, so that distinct parallel vectors occur; thorough: 20 more with magnitudes up to 3). Integer coordinates make the reference determinant exact in int64 and produce
// every kind of degeneracy (repeated, antipodal, collinear-through-origin, coplanar) in bulk.
//   check 1 (all ordered triples): RobustSign equals the sign of the exact integer determinant whenever that is
//            non-zero; it is zero iff two arguments are identical; rotating the arguments keeps it, swapping two negates it.
//   check 2 (every point a and every 4-subset {b,c,d,e} of the others): the three-term Grassmann-Pluecker relation
//            [abc][ade] - [abd][ace] + [abe][acd] = 0 must be solvable with these signs, i.e. the answers on degenerate
//            inputs are those of SOME real configuration (chirotope axiom).

import (
	"fmt"
	"os"
	"testing"

	"github.com/golang/geo/r3"
)

func vcBoundedC02Points(thorough bool) []Point {
	var pts []Point
	for x := -1; x <= 1; x++ {
		for y := -1; y <= 1; y++ {
			for z := -1; z <= 1; z++ {
				if x != 0 || y != 0 || z != 0 {
					pts = append(pts, Point{r3.Vector{X: float64(x), Y: float64(y), Z: float64(z)}})
				}
			}
		}
	}
	{
		for _, v := range [][3]int{{2, 0, 0}, {0, 2, 0}, {0, 0, 2}, {-2, 0, 0}, {0, -2, 0}, {0, 0, -2}, {2, 1, 0}, {1, 2, 0}, {0, 2, 1}, {0, 1, 2}, {2, 0, 1}, {1, 0, 2},
			{2, 2, 0}, {0, 2, 2}, {2, 0, 2}, {2, 1, 1}, {1, 2, 1}, {1, 1, 2}, {-2, 1, 0}, {2, -1, 0}, {0, -2, 1}, {-2, -2, 0}, {2, 2, 2}, {-2, -2, -2}} {
			pts = append(pts, Point{r3.Vector{X: float64(v[0]), Y: float64(v[1]), Z: float64(v[2])}})
		}
	}
	if thorough {
		for _, v := range [][3]int{{3, 0, 0}, {0, 3, 0}, {0, 0, 3}, {0, 0, -3}, {3, 3, 0}, {1, 1, -2}, {-1, 2, -1}, {2, -1, -1}, {3, 1, 0}, {0, -1, 3}, {-3, 0, 1}, {1, -3, 0},
			{2, 2, -1}, {-2, 1, 2}, {1, -2, 2}, {3, 3, 3}, {-1, -1, 2}, {2, -2, 0}, {0, 2, -2}, {-2, 0, 2}} {
			pts = append(pts, Point{r3.Vector{X: float64(v[0]), Y: float64(v[1]), Z: float64(v[2])}})
		}
	}
	return pts
}

func vcIntDet(a, b, c Point) int64 {
	ax, ay, az := int64(a.X), int64(a.Y), int64(a.Z)
	bx, by, bz := int64(b.X), int64(b.Y), int64(b.Z)
	cx, cy, cz := int64(c.X), int64(c.Y), int64(c.Z)
	return ax*(by*cz-bz*cy) - ay*(bx*cz-bz*cx) + az*(bx*cy-by*cx)
}

func TestVCBoundedRobustSign(t *testing.T) {
	pts := vcBoundedC02Points(os.Getenv("VERIF_TIER") == "thorough")
	n := len(pts)
	sign := make([][][]int8, n)
	evals, degenerate, failures := 0, 0, 0
	first := ""
	fail := func(msg string) {
		failures++
		if first == "" {
			first = msg
		}
	}
	for i := range pts {
		sign[i] = make([][]int8, n)
		for j := range pts {
			sign[i][j] = make([]int8, n)
			for k := range pts {
				s := int8(RobustSign(pts[i], pts[j], pts[k]))
				sign[i][j][k] = s
				evals++
				det := vcIntDet(pts[i], pts[j], pts[k])
				if det == 0 {
					degenerate++
				}
				if det > 0 && s != 1 || det < 0 && s != -1 {
					fail(fmt.Sprintf("RobustSign(%v,%v,%v)=%d but the exact determinant is %d", pts[i].Vector, pts[j].Vector, pts[k].Vector, s, det))
				}
				rep := i == j || j == k || i == k
				if (s == 0) != rep {
					fail(fmt.Sprintf("RobustSign(%v,%v,%v)=%d, arguments repeated: %v", pts[i].Vector, pts[j].Vector, pts[k].Vector, s, rep))
				}
			}
		}
	}
	for i := 0; i < n; i++ {
		for j := 0; j < n; j++ {
			for k := 0; k < n; k++ {
				s := sign[i][j][k]
				if sign[j][k][i] != s || sign[k][i][j] != s {
					fail(fmt.Sprintf("rotation changes RobustSign(%v,%v,%v)", pts[i].Vector, pts[j].Vector, pts[k].Vector))
				}
				if sign[k][j][i] != -s || sign[j][i][k] != -s || sign[i][k][j] != -s {
					fail(fmt.Sprintf("a swap does not negate RobustSign(%v,%v,%v)", pts[i].Vector, pts[j].Vector, pts[k].Vector))
				}
			}
		}
	}
	fmt.Printf("BOUNDED function=RobustSign(exact-sign,zero-iff-repeated,permutations) evaluations=%d distinct_nontrivial=%d failures=%d\n", evals, degenerate, failures)
	gp, gpDegenerate, gpFail := 0, 0, 0
	for a := 0; a < n; a++ {
		for b := 0; b < n; b++ {
			if b == a {
				continue
			}
			for c := b + 1; c < n; c++ {
				if c == a {
					continue
				}
				for d := c + 1; d < n; d++ {
					if d == a {
						continue
					}
					for e := d + 1; e < n; e++ {
						if e == a {
							continue
						}
						gp++
						s1 := sign[a][b][c] * sign[a][d][e]
						s2 := -sign[a][b][d] * sign[a][c][e]
						s3 := sign[a][b][e] * sign[a][c][d]
						if vcIntDet(pts[a], pts[b], pts[c]) == 0 || vcIntDet(pts[a], pts[d], pts[e]) == 0 || vcIntDet(pts[a], pts[b], pts[d]) == 0 ||
							vcIntDet(pts[a], pts[c], pts[e]) == 0 || vcIntDet(pts[a], pts[b], pts[e]) == 0 || vcIntDet(pts[a], pts[c], pts[d]) == 0 {
							gpDegenerate++
						}
						pos := s1 > 0 || s2 > 0 || s3 > 0
						neg := s1 < 0 || s2 < 0 || s3 < 0
						if pos != neg {
							gpFail++
							if first == "" {
								first = fmt.Sprintf("Grassmann-Pluecker violated for a=%v b=%v c=%v d=%v e=%v: terms %d %d %d", pts[a].Vector, pts[b].Vector, pts[c].Vector, pts[d].Vector, pts[e].Vector, s1, s2, s3)
							}
						}
					}
				}
			}
		}
	}
	fmt.Printf("BOUNDED function=RobustSign(chirotope-consistency) evaluations=%d distinct_nontrivial=%d failures=%d\n", gp, gpDegenerate, gpFail)
	if failures+gpFail > 0 {
		fmt.Printf("BOUNDED-FAIL %s\n", first)
		t.Fail()
	}
}
