package s2

// Bounded stand-in for EdgeQuery.initCovering (property C08). Injected by overlay; never written to /repo.
// Enumerates EVERY index whose cell list is built from a small per-face menu (below) and checks, on the real
// function, that each index cell lies inside some cell of the initial covering and that the two parallel
// slices stay in step. The menu per face (6 faces, independent choices, the empty index excluded):
//   quick    : absent | face cell | child 0 | child 3 | children 0,3 | children 1,2                     (6^6-1 indexes)
//   thorough : the above plus  children 0,1,2,3 | grandchild 0.0 | grandchildren 0.0,3.3 | child 1 + grandchild 2.2 | leaf at the face's first position
//                                                                                                        (11^6-1 indexes)

import (
	"fmt"
	"os"
	"testing"
)

func vcBoundedMenu(face int, thorough bool) [][]CellID {
	f := CellIDFromFace(face)
	ch := f.Children()
	g := func(i, j int) CellID { c := ch[i].Children(); return c[j] }
	menu := [][]CellID{
		{},
		{f},
		{ch[0]},
		{ch[3]},
		{ch[0], ch[3]},
		{ch[1], ch[2]},
	}
	if thorough {
		menu = append(menu,
			[]CellID{ch[0], ch[1], ch[2], ch[3]},
			[]CellID{g(0, 0)},
			[]CellID{g(0, 0), g(3, 3)},
			[]CellID{ch[1], g(2, 2)},
			[]CellID{f.ChildBeginAtLevel(MaxLevel)},
		)
	}
	return menu
}

func TestVCBoundedInitCovering(t *testing.T) {
	thorough := os.Getenv("VERIF_TIER") == "thorough"
	var menus [6][][]CellID
	for f := 0; f < 6; f++ {
		menus[f] = vcBoundedMenu(f, thorough)
	}
	n := len(menus[0])
	total, multiFace, failures := 0, 0, 0
	var firstFail string
	var choice [6]int
	var rec func(f int)
	rec = func(f int) {
		if f == 6 {
			var cells []CellID
			faces := 0
			for k := 0; k < 6; k++ {
				if len(menus[k][choice[k]]) > 0 {
					faces++
				}
				cells = append(cells, menus[k][choice[k]]...)
			}
			if len(cells) == 0 {
				return
			}
			total++
			if faces >= 3 {
				multiFace++
			}
			idx := NewShapeIndex()
			idx.cells = cells
			for _, c := range cells {
				idx.cellMap[c] = &ShapeIndexCell{}
			}
			e := &EdgeQuery{index: idx}
			e.initCovering()
			bad := ""
			if len(e.indexCovering) != len(e.indexCells) {
				bad = fmt.Sprintf("len(indexCovering)=%d != len(indexCells)=%d", len(e.indexCovering), len(e.indexCells))
			}
			for _, c := range cells {
				in := false
				for _, cov := range e.indexCovering {
					if cov.IsValid() && cov.Contains(c) {
						in = true
					}
				}
				if !in && bad == "" {
					bad = fmt.Sprintf("index cell %v is in no cell of the initial covering %v", c, e.indexCovering)
				}
			}
			if bad != "" {
				failures++
				if firstFail == "" {
					firstFail = fmt.Sprintf("index cells %v: %s", cells, bad)
				}
			}
			return
		}
		for i := 0; i < n; i++ {
			choice[f] = i
			rec(f + 1)
		}
	}
	rec(0)
	fmt.Printf("BOUNDED function=EdgeQuery.initCovering evaluations=%d distinct_nontrivial=%d failures=%d\n", total, multiFace, failures)
	if failures > 0 {
		fmt.Printf("BOUNDED-FAIL %s\n", firstFail)
		t.Fail()
	}
}
