#!/bin/bash
# builds the VC generator from files on disk only (x/tools v0.29.0 from the module cache)
set -e
cd "$(dirname "$0")/govc"
export GOFLAGS=-mod=mod GOPROXY=off GOSUMDB=off GOTOOLCHAIN=local
mkdir -p ../bin
go build -o ../bin/govc .
