#!/usr/bin/env python3
# usage: seedstore.py <src dir> <dest name e.g. C09_1> <detected obligation or -> <detection history text>
import json,sys,os,shutil
src,name,det,hist=sys.argv[1:5]
dst='/verif/seeded/'+name
os.makedirs(dst,exist_ok=True)
for f in ('patch.diff','demo_test.go'):
    shutil.copy(os.path.join(src,f),os.path.join(dst,f))
m=json.load(open(os.path.join(src,'meta.json')))
m['source']="independent sub-agent given only the property text and a scratch copy of the library (contract files removed, no history)"
m['confirmed_by_me']=["./seedcheck.sh: demo passes on unchanged tree, fails with the patch, full suite passes with the patch"]
m['detected_by_obligation']=None if det=='-' else det
m['detection_history']=hist
json.dump(m,open(os.path.join(dst,'meta.json'),'w'),indent=1)
print('stored',dst)
