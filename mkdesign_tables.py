#!/usr/bin/env python3
# Regenerates the two generated tables of DESIGN.md (section 8.5 and 8.6) from seeded/*/meta.json and selftest/expect.txt.
import json,glob,os,re
rows=["| seed | changed | caught by | history |","|------|---------|-----------|---------|"]
for d in sorted(glob.glob('/verif/seeded/*')):
    m=json.load(open(d+'/meta.json'))
    diff=open(d+'/patch.diff').read()
    files=sorted(set(re.findall(r'^\+\+\+ b/(\S+)',diff,re.M)))
    det=m.get('detected_by_obligation') or '**missed**'
    rows.append("| %s | %s | %s | %s |"%(os.path.basename(d),', '.join(files),det.replace('|','/'),m.get('detection_history','').replace('|','/')))
seeds='\n'.join(rows)
rows=["| mutant | property | must fail on |","|--------|----------|--------------|"]
for l in open('/verif/selftest/expect.txt'):
    l=l.strip()
    if not l or l.startswith('#'): continue
    p,prop,exp=l.split(None,2)
    rows.append("| %s | %s | %s |"%(p,prop,exp))
mut='\n'.join(rows)
c=open('/verif/DESIGN.md').read()
c=re.sub(r'<!-- BEGIN GENERATED:seeds -->.*?<!-- END GENERATED:seeds -->','<!-- BEGIN GENERATED:seeds -->\n'+seeds.replace('\\','\\\\')+'\n<!-- END GENERATED:seeds -->',c,flags=re.S)
c=re.sub(r'<!-- BEGIN GENERATED:mutants -->.*?<!-- END GENERATED:mutants -->','<!-- BEGIN GENERATED:mutants -->\n'+mut.replace('\\','\\\\')+'\n<!-- END GENERATED:mutants -->',c,flags=re.S)
open('/verif/DESIGN.md','w').write(c)
