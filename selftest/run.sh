#!/bin/bash
# Self-test: every mutant patch must make the named property's check fail on the expected obligation,
# and the unchanged tree must pass. Works on a scratch copy of /repo (removed afterwards).
cd "$(dirname "$0")/.."
HERE=$(pwd)
SCR=$(mktemp -d ${TMPDIR:-/tmp}/vcself.XXXXXX)
trap 'rm -rf "$SCR"' EXIT
fail=0
only="$1"
while read -r patch prop expect; do
  case "$patch" in \#*|"") continue;; esac
  if [ -n "$only" ] && [[ "$patch" != *"$only"* ]]; then continue; fi
  rm -rf "$SCR/repo"; mkdir -p "$SCR/repo"
  (cd /repo && git archive HEAD) | tar -x -C "$SCR/repo"
  (cd "$HERE/contracts" && find . -name 'vc_*_verif.go' | while read f; do cp $f "$SCR/repo/$f"; done)
  if ! (cd "$SCR/repo" && patch -p1 -s < "$HERE/selftest/mutants/$patch"); then echo "SELFTEST $patch: patch does not apply"; fail=1; continue; fi
  out=$(./bin/govc -repo "$SCR/repo" -mirror "$HERE/contracts" -prop "$prop" -tier quick -timeout ${SELFTEST_TIMEOUT:-40} -out "$SCR/work" -known /dev/null -replaydir "$SCR/replay" -noreplay 2>&1)
  if [ -d "bounded/$prop" ]; then
    out="$out
$(VC_REPO="$SCR/repo" ./bounded.sh "$prop" quick /dev/null 2>&1 | sed 's/^BOUNDED-FAIL/obligation bounded:/')"
  fi
  if echo "$out" | grep -F "obligation" | grep -qF "$expect"; then echo "SELFTEST $patch: caught ($expect)"; else echo "SELFTEST $patch: MISSED (expected failing obligation containing '$expect')"; echo "$out" | tail -5; fail=1; fi
done < selftest/expect.txt
exit $fail
