#!/bin/bash
# usage: mkmutant.sh <name> <prop> <expected obligation substring> <file relative to repo> <python replace: old|||new>
# creates selftest/mutants/<name>.patch from /repo HEAD with one textual replacement
set -e
NAME="$1"; PROP="$2"; EXP="$3"; FILE="$4"; REP="$5"
SCR=$(mktemp -d /tmp/vcmut.XXXXXX); trap 'rm -rf $SCR' EXIT
mkdir -p $SCR/a/$(dirname $FILE) $SCR/b/$(dirname $FILE)
(cd /repo && git show HEAD:$FILE) > $SCR/a/$FILE
python3 - "$SCR/a/$FILE" "$SCR/b/$FILE" "$REP" <<'PY'
import sys
src=open(sys.argv[1]).read()
old,new=sys.argv[3].split("|||")
assert src.count(old)==1, "pattern occurs %d times"%src.count(old)
open(sys.argv[2],'w').write(src.replace(old,new))
PY
(cd $SCR && diff -u a/$FILE b/$FILE) > /verif/selftest/mutants/$NAME.patch || true
grep -q "^$NAME.patch " /verif/selftest/expect.txt || echo "$NAME.patch $PROP $EXP" >> /verif/selftest/expect.txt
