#!/bin/bash
# Re-runs every stored seeded change against the current machinery and compares with the recorded detection status.
cd "$(dirname "$0")"
for d in seeded/*/; do
  n=$(basename $d); p=${n%_*}
  exp=$(python3 -c "import json;m=json.load(open('$d/meta.json'));print('missed' if not m.get('detected_by_obligation') else 'caught')")
  pk=$(python3 -c "import json;print(json.load(open('$d/meta.json')).get('pkgdir','s2'))")
  tier=quick; grep -q "thorough tier" $d/meta.json && tier=thorough
  # some seeds are recorded under the property whose check catches them
  props="$p"; [ "$n" = "C09_3" ] && props="C09"
  out=$(TIER=$tier ./seedcheck.sh /verif/$d $p $pk 2>&1)
  if echo "$out" | grep -q "failed=[1-9]\|VIOLATION\|BOUNDED-FAIL"; then got=caught; else got=missed; fi
  echo "$n expected=$exp got=$got $( [ $exp = $got ] && echo OK || echo CHANGED )"
done
