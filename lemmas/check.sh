#!/bin/bash
# Re-checks the stand-alone SMT lemmas the generator's abstractions rest on (slow: fp.rem). Expected: unsat.
cd "$(dirname "$0")"
for f in *.smt2; do
  ( timeout 7200 z3-new "$f" | head -1 | sed "s|^|$f z3-new: |" ) &
  ( timeout 7200 cvc5 "$f" | head -1 | sed "s|^|$f cvc5: |" ) &
done
wait
