; Stand-alone lemma behind the `remwrap` flag of govc (stdmodels.go, math.Remainder):
; for |x| < 3*pi, IEEE remainder(x, 2*pi) is x, x-2*pi, x+2*pi (each exact), or -0 for x = -2*pi.
; Expected answer: unsat. fp.rem costs the solvers many minutes; checked by ./lemmas/check.sh, not on every run.
; Checked: cvc5 1.0.3 unsat (about 2 hours, 2026-10-02).
; The same statement was also tested on 2.2e8 doubles with Go's math.Remainder (no mismatch).
(set-logic QF_FP)
(declare-fun x () (_ FloatingPoint 11 53))
(define-fun pi () (_ FloatingPoint 11 53) (fp #b0 #b10000000000 #x921fb54442d18))
(define-fun twopi () (_ FloatingPoint 11 53) (fp #b0 #b10000000001 #x921fb54442d18))
(define-fun threepi () (_ FloatingPoint 11 53) (fp.mul RNE ((_ to_fp 11 53) RNE 3.0) pi))
(assert (fp.lt (fp.abs x) threepi))
(define-fun w () (_ FloatingPoint 11 53) (ite (fp.leq (fp.abs x) pi) x (ite (fp.gt x pi) (fp.sub RNE x twopi) (ite (fp.eq x (fp.neg twopi)) (_ -zero 11 53) (fp.add RNE x twopi)))))
(assert (not (= (fp.rem x twopi) w)))
(check-sat)
