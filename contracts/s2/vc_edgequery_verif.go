//go:build verif

// Contracts for property C08 (initial-covering slice): the top-level covering the optimized edge query
// starts from contains every cell of the index (so no indexed edge is unreachable from the queue), and
// each range handed to addInitialRange lies on one cube face. The search itself (queue order, distance
// bounds, result bookkeeping) is floating point and is not decided. Comment-only; build tag verif.

package s2

//@ property C08

// index cell k lies inside some cell of the initial covering (CellID.Contains spelled out: range of leaf ids)
//@ spec func vcCovered(e *EdgeQuery, k int) bool = exists j int :: 0 <= j && j < len(e.indexCovering) && vcInside(e.index.cells[k], e.indexCovering[j])
//@ spec func vcInside(c, big CellID) bool = vcLo(big) <= uint64(c) && uint64(c) <= vcHi(big)

//@ func (s *ShapeIndexIterator) CellID() CellID
//@   inline
//@   requires s != nil
//@   ensures result == s.id

//@ func (s *ShapeIndexIterator) IndexCell() *ShapeIndexCell
//@   inline
//@   requires s != nil
//@   ensures result == s.cell

// addInitialRange appends one covering cell that contains the first and the last cell of the range; "requires that
// first and last cells have a common ancestor" (its doc comment) means: they are on the same face
//@ func (e *EdgeQuery) addInitialRange(first, last *ShapeIndexIterator)
//@   requires e != nil && e.index != nil && vcIdx(e.index) && vcIterAt(first) && vcIterAt(last) && first.index == e.index && last.index == e.index
//@   requires first.position <= last.position && last.position < len(e.index.cells)
//@   requires [same-face] uint64(first.id)>>61 == uint64(last.id)>>61
//@   modifies e.indexCovering, e.indexCells
//@   ensures [appended] len(e.indexCovering) == old(len(e.indexCovering))+1
//@   ensures [kept] forall j int :: 0 <= j && j < old(len(e.indexCovering)) ==> e.indexCovering[j] == old(e.indexCovering)[j]
//@   ensures [covers-ends] vcInside(first.id, e.indexCovering[len(e.indexCovering)-1]) && vcInside(last.id, e.indexCovering[len(e.indexCovering)-1])

// the level at which initCovering splits an index whose first and last cells are a and b
//@ spec func vcTopLevel(a, b CellID) int = vcIf(uint64(a)>>61 == uint64(b)>>61, vcFirstInt(a.CommonAncestorLevel(b))+1, 0)
//@ spec func vcFirstInt(l int, ok bool) int = l

// Index cells are pairwise disjoint, so none of them is as large as the smallest common ancestor of the first and the
// last one (it would contain both). This consequence of disjointness is taken as a precondition, not proved here.
//@ spec func vcBelowTop(ix *ShapeIndex) bool = len(ix.cells) >= 2 ==> (forall k int :: 0 <= k && k < len(ix.cells) ==> vcLsb(ix.cells[k]) <= vcLsbAt(vcTopLevel(ix.cells[0], ix.cells[len(ix.cells)-1])))

// every cell of the index is inside some cell of the initial covering
//@ func (e *EdgeQuery) initCovering()
//@   requires e != nil && e.index != nil && e.index.status == fresh && vcIdx(e.index) && vcBelowTop(e.index) && len(e.index.cells) >= 1
//@   modifies e.indexCovering, e.indexCells
//@   ensures [covers-index] forall k int :: 0 <= k && k < len(e.index.cells) ==> vcCovered(e, k)
//@   loop 1 (id CellID, next *ShapeIndexIterator, last *ShapeIndexIterator, lastID CellID): invariant [iters] vcIterAt(next) && vcIterAt(last) && next.index == e.index && last.index == e.index && last.position == len(e.index.cells)-1 && next != last && vcFresh(next) && vcFresh(last)
//@   loop 1: invariant [top] vcValid(lastID) && vcInside(e.index.cells[len(e.index.cells)-1], lastID) && vcLsb(lastID) >= 1
//@   loop 1: invariant [deep] forall k int :: 0 <= k && k < len(e.index.cells) ==> vcLsb(e.index.cells[k]) <= vcLsb(lastID)
//@   loop 1: invariant [id] vcValid(id) && vcLsb(id) == vcLsb(lastID) && vcLo(id) <= vcLo(lastID)
//@   loop 1: invariant [next-in-or-after-id] next.position < len(e.index.cells) && vcLo(id) <= uint64(e.index.cells[next.position])
//@   loop 1: invariant [covered-so-far] forall k int :: 0 <= k && k < next.position ==> vcCovered(e, k)
