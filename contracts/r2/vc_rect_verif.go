//go:build verif

// Contracts for r2.Rect (property C19): componentwise interval algebra, sound w.r.t. point membership.
// Exact IEEE-754 semantics; (px,py) is a ghost probe point. Comment-only.

package r2

//@ property C19

//@ spec func vcRectOK(r Rect) bool = !vcIsNaN(r.X.Lo) && !vcIsNaN(r.X.Hi) && !vcIsNaN(r.Y.Lo) && !vcIsNaN(r.Y.Hi) && r.IsValid()
//@ spec func vcProbe(px, py float64) bool = !vcIsNaN(px) && !vcIsNaN(py)

//@ func (r Rect) Union(other Rect) Rect
//@   fp
//@   ghost px float64, py float64
//@   requires vcRectOK(r) && vcRectOK(other) && vcProbe(px, py)
//@   ensures [sound] r.ContainsPoint(Point{px, py}) || other.ContainsPoint(Point{px, py}) ==> result.ContainsPoint(Point{px, py})
//@   ensures [valid] vcRectOK(result)

//@ func (r Rect) AddRect(other Rect) Rect
//@   fp
//@   ghost px float64, py float64
//@   requires vcRectOK(r) && vcRectOK(other) && vcProbe(px, py)
//@   ensures [sound] r.ContainsPoint(Point{px, py}) || other.ContainsPoint(Point{px, py}) ==> result.ContainsPoint(Point{px, py})
//@   ensures [valid] vcRectOK(result)

//@ func (r Rect) Intersection(other Rect) Rect
//@   fp
//@   ghost px float64, py float64
//@   requires vcRectOK(r) && vcRectOK(other) && vcProbe(px, py)
//@   ensures [sound] r.ContainsPoint(Point{px, py}) && other.ContainsPoint(Point{px, py}) ==> result.ContainsPoint(Point{px, py})
//@   ensures [tight] result.ContainsPoint(Point{px, py}) ==> r.ContainsPoint(Point{px, py}) && other.ContainsPoint(Point{px, py})
//@   ensures [valid] vcRectOK(result)

//@ func (r Rect) Contains(other Rect) bool
//@   fp
//@   ghost px float64, py float64
//@   requires vcRectOK(r) && vcRectOK(other) && vcProbe(px, py)
//@   ensures [sound] result && other.ContainsPoint(Point{px, py}) ==> r.ContainsPoint(Point{px, py})

//@ func (r Rect) InteriorContains(other Rect) bool
//@   fp
//@   ghost px float64, py float64
//@   requires vcRectOK(r) && vcRectOK(other) && vcProbe(px, py)
//@   ensures [sound] result && other.ContainsPoint(Point{px, py}) ==> r.InteriorContainsPoint(Point{px, py})

//@ func (r Rect) Intersects(other Rect) bool
//@   inline
//@   fp
//@   ghost px float64, py float64
//@   requires vcRectOK(r) && vcRectOK(other) && vcProbe(px, py)
//@   ensures [complete] r.ContainsPoint(Point{px, py}) && other.ContainsPoint(Point{px, py}) ==> result

//@ func (r Rect) AddPoint(p Point) Rect
//@   fp
//@   ghost px float64, py float64
//@   requires vcRectOK(r) && vcProbe(px, py) && vcProbe(p.X, p.Y)
//@   ensures [added] result.ContainsPoint(p)
//@   ensures [kept] r.ContainsPoint(Point{px, py}) ==> result.ContainsPoint(Point{px, py})
//@   ensures [valid] vcRectOK(result)

//@ func (r Rect) ClampPoint(p Point) Point
//@   fp
//@   requires vcRectOK(r) && vcProbe(p.X, p.Y) && !r.IsEmpty()
//@   ensures [inside] r.ContainsPoint(result)

//@ func (r Rect) Expanded(margin Point) Rect
//@   fp
//@   ghost px float64, py float64
//@   requires vcRectOK(r) && vcProbe(px, py) && margin.X >= 0 && margin.X <= 1e300 && margin.Y >= 0 && margin.Y <= 1e300
//@   ensures [kept] r.ContainsPoint(Point{px, py}) ==> result.ContainsPoint(Point{px, py})
//@   ensures [empty-stays-empty] r.IsEmpty() ==> result.IsEmpty()

//@ func (r Rect) InteriorIntersects(other Rect) bool
//@   inline
//@   fp
//@   ghost px float64, py float64
//@   requires vcRectOK(r) && vcRectOK(other) && vcProbe(px, py)
//@   ensures [complete] r.InteriorContainsPoint(Point{px, py}) && other.ContainsPoint(Point{px, py}) ==> result
//@   ensures [needs-plain-intersection] result ==> r.Intersects(other)

//@ func (r Rect) ExpandedByMargin(margin float64) Rect
//@   inline
//@   fp
//@   ghost px float64, py float64
//@   requires vcRectOK(r) && vcProbe(px, py) && margin >= 0 && margin <= 1e300
//@   ensures [kept] r.ContainsPoint(Point{px, py}) ==> result.ContainsPoint(Point{px, py})
//@   ensures [empty-stays-empty] r.IsEmpty() ==> result.IsEmpty()
