//go:build verif

// Contracts for r1.Interval (property C19): the interval algebra is sound with respect to point
// membership. Exact IEEE-754 semantics (SMT floating-point theory): every float64 bit pattern of the
// operands and of the ghost probe point p is covered, no real-number idealisation. Comment-only.

package r1

//@ property C19

//@ spec func vcOK(i Interval) bool = !vcIsNaN(i.Lo) && !vcIsNaN(i.Hi)

//@ func (i Interval) Union(other Interval) Interval
//@   inline
//@   fp
//@   ghost p float64
//@   requires vcOK(i) && vcOK(other) && !vcIsNaN(p)
//@   ensures [sound] i.Contains(p) || other.Contains(p) ==> result.Contains(p)
//@   ensures [ok] vcOK(result)
//@   ensures [empty] i.IsEmpty() && other.IsEmpty() ==> result.IsEmpty()

//@ func (i Interval) Intersection(j Interval) Interval
//@   inline
//@   fp
//@   ghost p float64
//@   requires vcOK(i) && vcOK(j) && !vcIsNaN(p)
//@   ensures [sound] i.Contains(p) && j.Contains(p) ==> result.Contains(p)
//@   ensures [tight] result.Contains(p) ==> i.Contains(p) && j.Contains(p)
//@   ensures [ok] vcOK(result)

//@ func (i Interval) ContainsInterval(oi Interval) bool
//@   inline
//@   fp
//@   ghost p float64
//@   requires vcOK(i) && vcOK(oi) && !vcIsNaN(p)
//@   ensures [sound] result && oi.Contains(p) ==> i.Contains(p)
//@   ensures [complete] !result ==> (oi.Contains(oi.Lo) && !i.Contains(oi.Lo)) || (oi.Contains(oi.Hi) && !i.Contains(oi.Hi))

//@ func (i Interval) InteriorContainsInterval(oi Interval) bool
//@   inline
//@   fp
//@   ghost p float64
//@   requires vcOK(i) && vcOK(oi) && !vcIsNaN(p)
//@   ensures [sound] result && oi.Contains(p) ==> i.InteriorContains(p)

//@ func (i Interval) Intersects(oi Interval) bool
//@   inline
//@   fp
//@   ghost p float64
//@   requires vcOK(i) && vcOK(oi) && !vcIsNaN(p)
//@   ensures [complete] i.Contains(p) && oi.Contains(p) ==> result
//@   ensures [sound] result ==> (i.Contains(oi.Lo) && oi.Contains(oi.Lo)) || (i.Contains(i.Lo) && oi.Contains(i.Lo))

//@ func (i Interval) InteriorIntersects(oi Interval) bool
//@   inline
//@   fp
//@   ghost p float64
//@   requires vcOK(i) && vcOK(oi) && !vcIsNaN(p)
//@   ensures [complete] i.InteriorContains(p) && oi.Contains(p) ==> result

//@ func (i Interval) AddPoint(p float64) Interval
//@   inline
//@   fp
//@   ghost q float64
//@   requires vcOK(i) && !vcIsNaN(p) && !vcIsNaN(q)
//@   ensures [added] result.Contains(p)
//@   ensures [kept] i.Contains(q) ==> result.Contains(q)
//@   ensures [ok] vcOK(result)

//@ func (i Interval) ClampPoint(p float64) float64
//@   inline
//@   fp
//@   requires vcOK(i) && !vcIsNaN(p) && !i.IsEmpty()
//@   ensures [inside] i.Contains(result)
//@   ensures [fixed] i.Contains(p) ==> result == p

//@ func (i Interval) Expanded(margin float64) Interval
//@   inline
//@   fp
//@   ghost p float64
//@   requires vcOK(i) && !vcIsNaN(p) && margin >= 0 && margin <= 1e300
//@   ensures [kept] i.Contains(p) ==> result.Contains(p)
//@   ensures [empty-stays-empty] i.IsEmpty() ==> result.IsEmpty()

//@ func (i Interval) Equal(oi Interval) bool
//@   inline
//@   fp
//@   ghost p float64
//@   requires vcOK(i) && vcOK(oi) && !vcIsNaN(p)
//@   ensures [sound] result ==> (i.Contains(p) == oi.Contains(p))
//@   ensures [complete] !result ==> (i.Contains(i.Lo) != oi.Contains(i.Lo)) || (i.Contains(i.Hi) != oi.Contains(i.Hi)) || (i.Contains(oi.Lo) != oi.Contains(oi.Lo)) || (i.Contains(oi.Hi) != oi.Contains(oi.Hi))
