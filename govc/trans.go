package main

// SSA -> verification conditions.

import (
	"os"
	"fmt"
	"go/ast"
	"go/constant"
	"go/printer"
	"go/token"
	"go/types"
	"math"
	"sort"
	"strings"

	"golang.org/x/tools/go/ast/astutil"
	"golang.org/x/tools/go/packages"
	"golang.org/x/tools/go/ssa"
)

type Oblig struct {
	Name    string
	Kind    string
	Func    string
	Goal    *Term // reach => cond
	NAssume int
	Pos     token.Position
	Thorough bool
	// results
	Status  string // unsat (discharged) / sat / unknown / timeout
	Solver  string
	Time    float64
	Model   map[string]string
	Output  string
	File    string
}

type Unsupported struct{ Msg string }

func (u Unsupported) Error() string { return "unsupported: " + u.Msg }

func unsupported(f string, a ...interface{}) {
	if os.Getenv("VCDEBUG") == "stack" {
		panic(fmt.Sprintf(f, a...))
	}
	panic(Unsupported{fmt.Sprintf(f, a...)})
}

// Ctx is one verification unit: one function (or lemma) under contract.
type Ctx struct {
	eng      *Engine
	assumes  []*Term
	obligs   []*Oblig
	fp       bool
	stack    []*ssa.Function
	cellN    int
	target   *ssa.Function
	contract *Contract
	unitName string
	nameCount map[string]int
	opaque   map[string]int
	inputs   []InputVar
	alive0   *Term
	allocs   []*Term
	budget   int
	notes    []string
	termUnproved []string
	suppress int // >0: do not record obligations (spec evaluation)
	canary   bool
	cellSort map[int]*Sort
	globalsWritten map[string]bool
	ghosts   map[string]Val
	pre      *State
	curSpec  *specRun
	modSink  *[]modTarget
	wfDone   map[*Term]bool
	aliveDone map[[2]*Term]bool
	curMk    *markerInfo
	inUse    map[*ssa.Function]int
	trustedClauses []string
	siteCanaries int
	recTrial map[*ssa.Function]bool
	recTarget *ssa.Function
	recMeasure func(fr *Frame, args []Val) *Term
	recMeasure0 *Term
	reads    []readEvent
	prefer   []*Term
	splits   []*Term // boolean terms worth a case split (append in place / reallocated)
	forceInline bool // unit flag inlinecalls: callee contracts are ignored, bodies inlined
	defaultUnroll int // unit flag unrollcalls N: loops of inlined callees are unrolled N times (with unwinding assertion)
	ifSplits []*Term // branch conditions of the verified function (case split candidates when they occur in a goal)
	oldBinds map[int]Val
	sliceTerms map[*Term]bool
}

type InputVar struct {
	Name string
	Type types.Type
	V    Val
}

type EdgeRec struct {
	from, to *ssa.BasicBlock
	cond     *Term
	st       *State
	phi      map[*ssa.Phi]Val
	live     map[ssa.Value]Val
}

type LoopInfo struct {
	header  *ssa.BasicBlock
	blocks  map[*ssa.BasicBlock]bool
	ordinal int
	parent  *LoopInfo
	liveOut []ssa.Value
}

type FuncInfo struct {
	rpo     []*ssa.BasicBlock
	loops   map[*ssa.BasicBlock]*LoopInfo // by header
	loopOf  map[*ssa.BasicBlock]*LoopInfo // innermost loop containing block
	ordered []*LoopInfo
}

type Frame struct {
	ctx      *Ctx
	fn       *ssa.Function
	info     *FuncInfo
	vals     map[ssa.Value]Val
	spec     bool
	inQuant  bool
	depth    int
	contract *Contract // contract whose loop clauses apply to this activation
	pending  map[*ssa.BasicBlock][]EdgeRec
	done     map[*ssa.BasicBlock]bool
	rets     []EdgeRec
	retVals  [][]Val
	curReach *Term
	cur      *State
	prefix   string // obligation-name prefix for inlined frames
	unroll   []*LoopInfo
	iterTag  string
	marker   *markerInfo
	defers   []*ssa.Defer
	deferArgs []deferRec
	baseReach *Term
	absBase  *Term // absolute path condition at frame entry; curReach is relative to it
	entryReach map[*ssa.BasicBlock]*Term
	entry    *State
}

type markerInfo struct {
	mode    string // "verify" or "use"
	target  *ssa.Function
	results []Val
	done    bool
	contract *Contract
	callerFrame *Frame
	callPos token.Pos
	pre *State
	freshRefs []*Term
	retReach  *Term // verify mode: the condition under which the function under proof returns
}

func (c *Ctx) assume(t *Term) {
	if t == TTrue {
		return
	}
	c.assumes = append(c.assumes, t)
}

func (c *Ctx) oblige(fr *Frame, kind, detail string, cond *Term, pos token.Pos) {
	if c.suppress > 0 || (fr != nil && (fr.spec || fr.inQuant)) {
		return
	}
	reach := TTrue
	if fr != nil {
		reach = fr.abs()
	}
	if cond == nil {
		unsupported("internal: nil condition for obligation %s(%s)", kind, detail)
	}
	goal := Implies(reach, cond)
	if goal == TTrue {
		// trivially true obligations are still counted (cheap) so that evidence reflects them
	}
	name := c.unitName + "#" + kind
	if detail != "" {
		name += "(" + detail + ")"
	}
	if fr != nil && fr.prefix != "" {
		name += "@" + fr.prefix
	}
	if fr != nil && fr.iterTag != "" {
		name += fr.iterTag
	}
	c.nameCount[name]++
	if n := c.nameCount[name]; n > 1 {
		name = fmt.Sprintf("%s#%d", name, n)
	}
	ob := &Oblig{Name: name, Kind: kind, Func: c.unitName, Goal: goal, NAssume: len(c.assumes)}
	if strings.HasSuffix(detail, "!") {
		ob.Thorough = true
	}
	if pos.IsValid() {
		ob.Pos = c.eng.fset.Position(pos)
	}
	c.obligs = append(c.obligs, ob)
	// after asserting, the condition may be assumed by later obligations
	c.assume(goal)
}

// ---- function info: loops ----

func (e *Engine) funcInfo(fn *ssa.Function) *FuncInfo {
	if fi, ok := e.finfo[fn]; ok {
		return fi
	}
	fi := &FuncInfo{loops: map[*ssa.BasicBlock]*LoopInfo{}, loopOf: map[*ssa.BasicBlock]*LoopInfo{}}
	// DFS for back edges and postorder
	state := map[*ssa.BasicBlock]int{}
	var post []*ssa.BasicBlock
	type be struct{ from, to *ssa.BasicBlock }
	var backs []be
	var dfs func(b *ssa.BasicBlock)
	dfs = func(b *ssa.BasicBlock) {
		state[b] = 1
		for _, s := range b.Succs {
			switch state[s] {
			case 0:
				dfs(s)
			case 1:
				backs = append(backs, be{b, s})
			}
		}
		state[b] = 2
		post = append(post, b)
	}
	if len(fn.Blocks) > 0 {
		dfs(fn.Blocks[0])
	}
	for i := len(post) - 1; i >= 0; i-- {
		fi.rpo = append(fi.rpo, post[i])
	}
	for _, b := range backs {
		if !b.to.Dominates(b.from) {
			unsupported("irreducible control flow in %s", fn)
		}
		li := fi.loops[b.to]
		if li == nil {
			li = &LoopInfo{header: b.to, blocks: map[*ssa.BasicBlock]bool{b.to: true}}
			fi.loops[b.to] = li
		}
		// natural loop: nodes that reach b.from without passing header
		stack := []*ssa.BasicBlock{b.from}
		for len(stack) > 0 {
			x := stack[len(stack)-1]
			stack = stack[:len(stack)-1]
			if li.blocks[x] {
				continue
			}
			li.blocks[x] = true
			for _, p := range x.Preds {
				stack = append(stack, p)
			}
		}
	}
	for _, li := range fi.loops {
		fi.ordered = append(fi.ordered, li)
	}
	sort.Slice(fi.ordered, func(i, j int) bool { return fi.ordered[i].header.Index < fi.ordered[j].header.Index })
	for i, li := range fi.ordered {
		li.ordinal = i + 1
	}
	// nesting: innermost loop = smallest containing
	for _, b := range fn.Blocks {
		var best *LoopInfo
		for _, li := range fi.ordered {
			if li.blocks[b] && (best == nil || len(li.blocks) < len(best.blocks)) {
				best = li
			}
		}
		if best != nil {
			fi.loopOf[b] = best
		}
	}
	for _, li := range fi.ordered {
		var best *LoopInfo
		for _, lj := range fi.ordered {
			if lj != li && lj.blocks[li.header] && (best == nil || len(lj.blocks) < len(best.blocks)) {
				best = lj
			}
		}
		li.parent = best
		// live-out values
		for b := range li.blocks {
			for _, ins := range b.Instrs {
				v, ok := ins.(ssa.Value)
				if !ok || v.Referrers() == nil {
					continue
				}
				for _, r := range *v.Referrers() {
					if !li.blocks[r.Block()] {
						li.liveOut = append(li.liveOut, v)
						break
					}
				}
			}
		}
	}
	e.finfo[fn] = fi
	return fi
}

// ---- running a function body ----

// runFunc symbolically executes fn on args from state st under reach; returns results, post-state and
// the condition under which the function returns normally.
func (c *Ctx) runFunc(fn *ssa.Function, args []Val, bindings []Val, st *State, reach *Term, parent *Frame, opts frameOpts) ([]Val, *State, *Term) {
	if len(fn.Blocks) == 0 {
		unsupported("function without body: %s", fn)
	}
	c.budget -= len(fn.Blocks)
	fr := &Frame{ctx: c, fn: fn, info: c.eng.funcInfo(fn), vals: map[ssa.Value]Val{}, pending: map[*ssa.BasicBlock][]EdgeRec{}, done: map[*ssa.BasicBlock]bool{}}
	if parent != nil {
		fr.depth = parent.depth + 1
		fr.spec = parent.spec
		fr.inQuant = parent.inQuant
		fr.prefix = parent.prefix
		fr.iterTag = parent.iterTag
	}
	if opts.spec {
		fr.spec = true
	}
	if opts.inQuant {
		fr.inQuant = true
	}
	if opts.real {
		fr.spec = false
		fr.inQuant = false
	}
	if opts.prefix != "" {
		if fr.prefix != "" {
			fr.prefix += "/" + opts.prefix
		} else {
			fr.prefix = opts.prefix
		}
	}
	fr.contract = opts.contract
	fr.marker = opts.marker
	for i, p := range fn.Params {
		if i >= len(args) {
			unsupported("arity mismatch calling %s", fn)
		}
		fr.vals[p] = args[i]
	}
	for i, fv := range fn.FreeVars {
		if i >= len(bindings) {
			unsupported("missing closure binding for %s", fn)
		}
		fr.vals[fv] = bindings[i]
	}
	c.stack = append(c.stack, fn)
	defer func() { c.stack = c.stack[:len(c.stack)-1] }()

	fr.baseReach = reach
	fr.absBase = reach
	fr.entry = st.clone()
	fr.pending[fn.Blocks[0]] = []EdgeRec{{to: fn.Blocks[0], cond: TTrue, st: st}}
	fr.runRegion(nil)

	if len(fr.rets) == 0 {
		// never returns (all paths panic)
		return zeroResults(fn), st, TFalse
	}
	var conds []*Term
	var sts []*State
	for _, r := range fr.rets {
		conds = append(conds, r.cond)
		sts = append(sts, r.st)
	}
	post := mergeStates(conds, sts)
	nres := fn.Signature.Results().Len()
	res := make([]Val, nres)
	for i := 0; i < nres; i++ {
		var vs []Val
		for _, rv := range fr.retVals {
			vs = append(vs, rv[i])
		}
		res[i] = mergeVals(conds, vs)
	}
	return res, post, Or(conds...)
}

type frameOpts struct {
	spec, inQuant, real bool
	prefix   string
	contract *Contract
	marker   *markerInfo
}

func zeroResults(fn *ssa.Function) []Val {
	n := fn.Signature.Results().Len()
	res := make([]Val, n)
	for i := 0; i < n; i++ {
		res[i] = Val{T: zeroTerm(fn.Signature.Results().At(i).Type())}
	}
	return res
}

func mergeVals(conds []*Term, vs []Val) Val {
	if len(vs) == 1 {
		return vs[0]
	}
	// tuples
	if vs[0].Tuple != nil {
		n := len(vs[0].Tuple)
		out := Val{Tuple: make([]Val, n)}
		for i := 0; i < n; i++ {
			var col []Val
			for _, v := range vs {
				col = append(col, v.Tuple[i])
			}
			out.Tuple[i] = mergeVals(conds, col)
		}
		return out
	}
	allSame := true
	for _, v := range vs[1:] {
		if v.T != vs[0].T || v.Ptr != vs[0].Ptr || v.Clo != vs[0].Clo {
			allSame = false
		}
	}
	if allSame {
		return vs[0]
	}
	// function values: keep the alternatives
	allClo := false
	for _, v := range vs {
		if v.Clo != nil || v.CloAlts != nil {
			allClo = true
		}
	}
	for _, v := range vs {
		if v.Clo == nil && v.CloAlts == nil {
			if v.T != nil && v.T.Lit {
				continue // nil func constant
			}
			allClo = false
		}
	}
	if allClo {
		var alts []CloAlt
		for i, v := range vs {
			c := conds[i]
			switch {
			case v.Clo != nil:
				alts = append(alts, CloAlt{c, v.Clo})
			case v.CloAlts != nil:
				for _, a := range v.CloAlts {
					alts = append(alts, CloAlt{And(c, a.Cond), a.Clo})
				}
			default:
				alts = append(alts, CloAlt{c, nil})
			}
		}
		return Val{CloAlts: alts}
	}
	var ts []*Term
	for _, v := range vs {
		t := v.term()
		if t == nil {
			unsupported("cannot merge non-term values (pointer to local or closure) at control-flow join")
		}
		ts = append(ts, t)
	}
	out := Val{T: mergeTerms(conds, ts)}
	// keep static interface knowledge when all agree
	if vs[0].Dyn != nil {
		same := true
		for _, v := range vs[1:] {
			if v.Dyn == nil || !types.Identical(v.Dyn, vs[0].Dyn) {
				same = false
			}
		}
		if same {
			out.Dyn = vs[0].Dyn
			var dv []Val
			ok := true
			for _, v := range vs {
				if v.DynV == nil {
					ok = false
					break
				}
				dv = append(dv, *v.DynV)
			}
			if ok {
				func() {
					defer func() {
						if r := recover(); r != nil {
							out.Dyn = nil
						}
					}()
					m := mergeVals(conds, dv)
					out.DynV = &m
				}()
			}
		}
	}
	return out
}

// term converts a value to a single SMT term when possible.
func (v Val) term() *Term {
	if v.T != nil {
		return v.T
	}
	if v.Ptr != nil && v.Ptr.Root == RootObj && len(v.Ptr.Path) == 0 {
		return v.Ptr.Ref
	}
	return nil
}

func (fr *Frame) inLoop(b *ssa.BasicBlock, li *LoopInfo) bool {
	if li == nil {
		return true
	}
	return li.blocks[b]
}

// runRegion processes the blocks of region li (nil = whole function) in reverse postorder.
func (fr *Frame) runRegion(li *LoopInfo) {
	for _, b := range fr.info.rpo {
		if fr.done[b] || !fr.inLoop(b, li) {
			continue
		}
		if li != nil && b == li.header {
			continue // header handled by runLoop
		}
		if inner := fr.info.loops[b]; inner != nil && inner != li {
			fr.runLoop(inner)
			continue
		}
		// blocks of inner loops are processed by runLoop
		if lo := fr.info.loopOf[b]; lo != li {
			// belongs to a nested loop whose header has not been reached yet (cannot happen in RPO)
			continue
		}
		fr.runBlock(b, nil)
	}
}

// postDominates: every path from d to a function exit passes through j (back edges ignored).
func (fr *Frame) postDominates(j, d *ssa.BasicBlock) bool {
	if j == d {
		return true
	}
	seen := map[*ssa.BasicBlock]bool{j: true}
	stack := []*ssa.BasicBlock{d}
	for len(stack) > 0 {
		x := stack[len(stack)-1]
		stack = stack[:len(stack)-1]
		if seen[x] {
			continue
		}
		seen[x] = true
		if len(x.Succs) == 0 {
			return false
		}
		for _, s := range x.Succs {
			if s.Dominates(x) {
				continue // back edge
			}
			stack = append(stack, s)
		}
	}
	return true
}

// abs is the absolute path condition of the current point.
func (fr *Frame) abs() *Term {
	if fr.absBase == nil {
		return fr.curReach
	}
	return And(fr.absBase, fr.curReach)
}

func (fr *Frame) takeIncoming(b *ssa.BasicBlock) []EdgeRec {
	in := fr.pending[b]
	delete(fr.pending, b)
	return in
}

// enterBlock merges incoming edges: sets cur state, reach, phi values and live-out values.
func (fr *Frame) enterBlock(b *ssa.BasicBlock, in []EdgeRec, phiOverride map[*ssa.Phi]Val) bool {
	if len(in) == 0 {
		fr.done[b] = true
		return false
	}
	var conds []*Term
	var sts []*State
	for _, r := range in {
		conds = append(conds, r.cond)
		sts = append(sts, r.st)
	}
	fr.curReach = Or(conds...)
	if fr.spec {
		// pure spec code: a block that post-dominates its immediate dominator is reached exactly when that one is
		if d := b.Idom(); d != nil && fr.entryReach != nil {
			if r, ok := fr.entryReach[d]; ok && fr.postDominates(b, d) {
				fr.curReach = r
			}
		}
	}
	if fr.entryReach == nil {
		fr.entryReach = map[*ssa.BasicBlock]*Term{}
	}
	fr.entryReach[b] = fr.curReach
	fr.cur = mergeStates(conds, sts)
	// live-out values of unrolled loops
	live := map[ssa.Value]bool{}
	for _, r := range in {
		for v := range r.live {
			live[v] = true
		}
	}
	for v := range live {
		var cs []*Term
		var vs []Val
		for _, r := range in {
			if x, ok := r.live[v]; ok {
				cs = append(cs, r.cond)
				vs = append(vs, x)
			}
		}
		fr.vals[v] = mergeVals(cs, vs)
	}
	for _, ins := range b.Instrs {
		phi, ok := ins.(*ssa.Phi)
		if !ok {
			break
		}
		if phiOverride != nil {
			if v, ok := phiOverride[phi]; ok {
				fr.vals[phi] = v
				continue
			}
		}
		var vs []Val
		for _, r := range in {
			vs = append(vs, r.phi[phi])
		}
		fr.vals[phi] = mergeVals(conds, vs)
	}
	return true
}

func (fr *Frame) runBlock(b *ssa.BasicBlock, phiOverride map[*ssa.Phi]Val) {
	in := fr.takeIncoming(b)
	if !fr.enterBlock(b, in, phiOverride) {
		return
	}
	fr.execBlock(b)
}

func (fr *Frame) execBlock(b *ssa.BasicBlock) {
	fr.done[b] = true
	for _, ins := range b.Instrs {
		if _, ok := ins.(*ssa.Phi); ok {
			continue
		}
		if fr.curReach == TFalse {
			// unreachable code: still need to define values? skip entirely
			return
		}
		fr.exec(ins)
	}
}

func (fr *Frame) addEdge(from, to *ssa.BasicBlock, cond *Term) {
	if cond == TFalse {
		return
	}
	rec := EdgeRec{from: from, to: to, cond: cond, st: fr.cur, phi: map[*ssa.Phi]Val{}}
	idx := -1
	// a block may be a predecessor several times (e.g. both branches); find the matching pred index not yet used
	used := 0
	for _, r := range fr.pending[to] {
		if r.from == from {
			used++
		}
	}
	k := 0
	for i, p := range to.Preds {
		if p == from {
			if k == used%countPreds(to, from) {
				idx = i
				break
			}
			k++
		}
	}
	if idx < 0 {
		for i, p := range to.Preds {
			if p == from {
				idx = i
				break
			}
		}
	}
	for _, ins := range to.Instrs {
		phi, ok := ins.(*ssa.Phi)
		if !ok {
			break
		}
		rec.phi[phi] = fr.value(phi.Edges[idx])
	}
	// live-out snapshot when leaving an unrolled loop
	for _, li := range fr.unroll {
		if li.blocks[from] && !li.blocks[to] {
			if rec.live == nil {
				rec.live = map[ssa.Value]Val{}
			}
			for _, v := range li.liveOut {
				if x, ok := fr.vals[v]; ok {
					rec.live[v] = x
				}
			}
		}
	}
	fr.pending[to] = append(fr.pending[to], rec)
}

func countPreds(to, from *ssa.BasicBlock) int {
	n := 0
	for _, p := range to.Preds {
		if p == from {
			n++
		}
	}
	if n == 0 {
		return 1
	}
	return n
}

// ---- loops ----

func (fr *Frame) loopSpec(li *LoopInfo) *LoopSpec {
	c := fr.ctx
	if c.forceInline && fr.fn != c.target {
		if c.defaultUnroll > 0 {
			return &LoopSpec{N: li.ordinal, Unroll: c.defaultUnroll}
		}
		return nil
	}
	if fr.contract == nil {
		return nil
	}
	return fr.contract.Loops[li.ordinal]
}

func (fr *Frame) runLoop(li *LoopInfo) {
	h := li.header
	ls := fr.loopSpec(li)
	if ls != nil && ls.Unroll > 0 {
		fr.runLoopUnrolled(li, ls.Unroll)
		return
	}
	c := fr.ctx
	in := fr.takeIncoming(h)
	if len(in) == 0 {
		for b := range li.blocks {
			fr.done[b] = true
		}
		return
	}
	// entry merge
	if !fr.enterBlock(h, in, nil) {
		return
	}
	entryReach := fr.curReach
	sIn := fr.cur
	tag := fmt.Sprintf("loop%d", li.ordinal)
	// invariant on entry
	if ls != nil {
		fr.evalLoopSpec(li, ls, "entry", nil)
	}
	// havoc: new epoch, fresh phis
	ep := newEpoch(fmt.Sprintf("%s.%s", sanitize(fr.fn.Name()), tag), sIn)
	fr.cur = &State{m: map[string]*Term{}, epoch: ep}
	phiHavoc := map[*ssa.Phi]Val{}
	for _, ins := range h.Instrs {
		phi, ok := ins.(*ssa.Phi)
		if !ok {
			break
		}
		nm := phi.Comment
		if nm == "" {
			nm = phi.Name()
		}
		hv := fr.havocVal(phi.Type(), nm+"@"+tag)
		if hv.T != nil {
			fr.aliveNow(hv.T, phi.Type())
		}
		phiHavoc[phi] = hv
		fr.vals[phi] = hv
	}
	// the set of allocated objects only grows across iterations (assumed before the body so that the body's
	// obligations can use it)
	{
		aliveSort := SArray(SRef, SBool)
		qa := BoundVar("r", SRef)
		c.assume(Forall([]*Term{qa}, Implies(Select(sIn.get("alive", aliveSort), qa), Select(fr.cur.get("alive", aliveSort), qa))))
	}
	autoTerm := fr.autoInduction(li, phiHavoc, in)
	var measure0 *Term
	if ls != nil {
		measure0 = fr.evalLoopSpec(li, ls, "assume", nil)
	}
	fr.curReach = entryReach
	retsBefore := len(fr.rets)
	// body
	fr.execBlock(h)
	fr.runRegion(li)
	// back edges
	backs := fr.takeIncoming(h)
	for i, r := range backs {
		fr.cur = r.st
		fr.curReach = r.cond
		saved := map[*ssa.Phi]Val{}
		for phi := range phiHavoc {
			saved[phi] = fr.vals[phi]
			fr.vals[phi] = r.phi[phi]
		}
		if ls != nil {
			m1 := fr.evalLoopSpecBack(li, ls, i)
			if ls.Decr != nil && measure0 != nil && m1 != nil {
				c.oblige(fr, tag+"-decreases", ls.Decr.Label, And(BVCmp("bvsle", BVLit(0, 64), measure0), BVCmp("bvslt", m1, measure0)), h.Instrs[0].Pos())
			}
		}
		for phi, v := range saved {
			fr.vals[phi] = v
		}
	}
	if (ls == nil || ls.Decr == nil) && !autoTerm {
		c.termUnproved = append(c.termUnproved, fmt.Sprintf("%s %s", fr.fn.String(), tag))
	}
	// post-hoc definitions of the epoch variables
	fr.resolveEpoch(ep, sIn, backs)
	// states leaving the loop continue in the enclosing epoch with every touched key explicit
	norm := func(st *State) *State {
		if st.epoch != ep {
			return st
		}
		ns := &State{m: map[string]*Term{}, epoch: sIn.epoch}
		for k, v := range sIn.m {
			ns.m[k] = v
		}
		for k, v := range ep.vars {
			ns.m[k] = v
		}
		for k, v := range st.m {
			ns.m[k] = v
		}
		return ns
	}
	for to, recs := range fr.pending {
		for i := range recs {
			if recs[i].from != nil && li.blocks[recs[i].from] && !li.blocks[to] {
				recs[i].st = norm(recs[i].st)
			}
		}
	}
	for i := retsBefore; i < len(fr.rets); i++ {
		fr.rets[i].st = norm(fr.rets[i].st)
	}
	// phis that are never changed on any back edge keep their entry value
	for phi, hv := range phiHavoc {
		same := true
		for _, r := range backs {
			bv := r.phi[phi]
			if bv.T == nil || bv.T != hv.T {
				same = false
			}
		}
		if same && hv.T != nil && len(backs) > 0 {
			// entry value
			var vs []Val
			var cs []*Term
			for _, r := range in {
				vs = append(vs, r.phi[phi])
				cs = append(cs, r.cond)
			}
			ev := mergeVals(cs, vs)
			if ev.T != nil {
				hv.T.Def = ev.T
			}
		}
	}
}

// havocVal creates a fresh unconstrained value of Go type t.
func (fr *Frame) havocVal(t types.Type, hint string) Val {
	if tup, ok := t.(*types.Tuple); ok {
		v := Val{Tuple: make([]Val, tup.Len())}
		for i := 0; i < tup.Len(); i++ {
			v.Tuple[i] = fr.havocVal(tup.At(i).Type(), fmt.Sprintf("%s.%d", hint, i))
		}
		return v
	}
	x := FreshVar(hint, sortOf(t))
	fr.ctx.typeAssume(x, t, fr.curReach)
	return Val{T: x}
}

// aliveNow: a reference value that exists now refers to an object allocated by now (or is nil).
func (fr *Frame) aliveNow(x *Term, t types.Type) {
	c := fr.ctx
	if fr.inQuant || hasBound(x) {
		return
	}
	alive := fr.cur.get("alive", SArray(SRef, SBool))
	// a reference read while nothing has been allocated yet is nil or a pre-state object: the simplifier may treat it
	// as distinct from every object allocated later (like a reference held in an input)
	early := alive == c.alive0
	switch u := t.Underlying().(type) {
	case *types.Pointer, *types.Map:
		c.assume(Or(Eq(x, BVLit(0, 64)), Select(alive, x)))
		if early {
			inputRefTerms[x] = true
		}
	case *types.Slice:
		a := DataField_(x, 0)
		c.assume(Or(Eq(a, BVLit(0, 64)), Select(alive, a)))
		if early {
			inputRefTerms[a] = true
		}
	case *types.Struct:
		if opaqueStruct(t) {
			return
		}
		for i := 0; i < u.NumFields(); i++ {
			if hasPointers(u.Field(i).Type(), 0) {
				fr.aliveNow(DataField_(x, i), u.Field(i).Type())
			}
		}
	}
}

// markAlive: after a call, the references it returned denote allocated objects.
func (fr *Frame) markAlive(x *Term, t types.Type) {
	alive := fr.cur.get("alive", SArray(SRef, SBool))
	switch u := t.Underlying().(type) {
	case *types.Pointer:
		fr.cur.set("alive", Store(alive, x, TTrue))
	case *types.Slice:
		fr.cur.set("alive", Store(alive, DataField_(x, 0), TTrue))
	case *types.Struct:
		if opaqueStruct(t) {
			return
		}
		for i := 0; i < u.NumFields(); i++ {
			if hasPointers(u.Field(i).Type(), 0) {
				fr.markAlive(DataField_(x, i), u.Field(i).Type())
			}
		}
	}
}

// typeAssume adds the invariants every Go value of type t satisfies (slice header well-formedness).
func (c *Ctx) typeAssume(x *Term, t types.Type, reach *Term) {
	switch u := t.Underlying().(type) {
	case *types.Slice:
		c.assume(sliceWF(x))
		if !hasBound(x) {
			c.sliceTerms[x] = true
		}
	case *types.Basic:
		if u.Info()&types.IsString != 0 {
			c.assume(sliceWF(x))
			if !hasBound(x) {
				c.sliceTerms[x] = true
			}
		}
	case *types.Interface:
		// a nil interface has neither type nor value
		c.assume(Implies(Eq(DataField_(x, 0), BVLit(0, 32)), Eq(DataField_(x, 1), BVLit(0, 64))))
	case *types.Struct:
		if opaqueStruct(t) {
			return
		}
		for i := 0; i < u.NumFields(); i++ {
			ft := u.Field(i).Type()
			if needsTypeAssume(ft, 0) {
				c.typeAssume(DataField_(x, i), ft, reach)
			}
		}
	}
}

func needsTypeAssume(t types.Type, d int) bool {
	if d > 4 {
		return false
	}
	switch u := t.Underlying().(type) {
	case *types.Slice, *types.Interface:
		return true
	case *types.Basic:
		return u.Info()&types.IsString != 0
	case *types.Struct:
		if opaqueStruct(t) {
			return false
		}
		for i := 0; i < u.NumFields(); i++ {
			if needsTypeAssume(u.Field(i).Type(), d+1) {
				return true
			}
		}
	}
	return false
}

const maxLen = uint64(1) << 40

func sliceWF(s *Term) *Term {
	l := DataField_(s, 2)
	cp := DataField_(s, 3)
	off := DataField_(s, 1)
	return And(
		BVCmp("bvsle", BVLit(0, 64), l), BVCmp("bvsle", l, cp), BVCmp("bvsle", cp, BVLit(maxLen, 64)),
		BVCmp("bvsle", BVLit(0, 64), off), BVCmp("bvsle", off, BVLit(maxLen, 64)),
		Implies(Eq(DataField_(s, 0), BVLit(0, 64)), Eq(cp, BVLit(0, 64))))
}

// autoInduction: for the common counting shapes, assume bounds relating a phi to its start value.
// i := a; i < n; i++   gives  i >= a   (signed, no wrap because i < n held on every previous iteration)
func (fr *Frame) autoInduction(li *LoopInfo, phis map[*ssa.Phi]Val, in []EdgeRec) (terminates bool) {
	for phi, hv := range phis {
		if !isInteger(phi.Type()) || hv.T == nil {
			continue
		}
		// find the back-edge operand: phi + const
		var step int64
		okShape := true
		nback := 0
		for i, e := range phi.Edges {
			pred := li.header.Preds[i]
			if !li.blocks[pred] {
				continue
			}
			nback++
			bo, ok := e.(*ssa.BinOp)
			if !ok || (bo.Op != token.ADD && bo.Op != token.SUB) || bo.X != ssa.Value(phi) {
				okShape = false
				break
			}
			cst, ok := bo.Y.(*ssa.Const)
			if !ok || cst.Value == nil {
				okShape = false
				break
			}
			v, _ := constant.Int64Val(cst.Value)
			if bo.Op == token.SUB {
				v = -v
			}
			if step != 0 && step != v {
				okShape = false
				break
			}
			step = v
		}
		if !okShape || nback == 0 || (step != 1 && step != -1) {
			continue
		}
		// loop guard must compare the phi (dominating the body): header ends in If on phi < X or phi >= 0 etc.
		ifi, ok := li.header.Instrs[len(li.header.Instrs)-1].(*ssa.If)
		if !ok {
			continue
		}
		cmp, ok := ifi.Cond.(*ssa.BinOp)
		if !ok {
			continue
		}
		signed := isSigned(phi.Type())
		guardOK := false
		isPhiOrNext := func(v ssa.Value) bool {
			if v == ssa.Value(phi) {
				return true
			}
			if bo, ok := v.(*ssa.BinOp); ok && bo.X == ssa.Value(phi) && (bo.Op == token.ADD || bo.Op == token.SUB) {
				if _, ok := bo.Y.(*ssa.Const); ok && bo.Block() == li.header {
					return true
				}
			}
			return false
		}
		if step == 1 && isPhiOrNext(cmp.X) && cmp.Op == token.LSS && li.blocks[li.header.Succs[0]] && signed {
			guardOK = true
		}
		if step == -1 && isPhiOrNext(cmp.X) && (cmp.Op == token.GEQ || cmp.Op == token.GTR) && li.blocks[li.header.Succs[0]] && signed {
			guardOK = true
		}
		if !guardOK {
			continue
		}
		var vs []Val
		var cs []*Term
		for _, r := range in {
			vs = append(vs, r.phi[phi])
			cs = append(cs, r.cond)
		}
		start := mergeVals(cs, vs).T
		if start == nil {
			continue
		}
		le, ge := "bvule", "bvuge"
		if signed {
			le, ge = "bvsle", "bvsge"
		}
		// a counting loop whose bound is defined outside the loop and whose only exit-relevant guard is this
		// comparison terminates: the distance to the bound strictly decreases and is bounded below
		if _, isC := cmp.Y.(*ssa.Const); isC || !li.blocks[blockOf(cmp.Y)] {
			terminates = true
		}
		if step == 1 {
			fr.ctx.assume(Implies(fr.abs(), BVCmp(ge, hv.T, start)))
			// range loops: index in [-1, n)
			if phi.Comment == "rangeindex" && cmp.X != ssa.Value(phi) {
				if _, defined := fr.vals[cmp.Y]; defined || isConst(cmp.Y) {
					lim := fr.term(cmp.Y)
					fr.ctx.assume(Implies(fr.abs(), Or(Eq(hv.T, start), BVCmp("bvslt", hv.T, lim))))
				}
			}
		} else {
			fr.ctx.assume(Implies(fr.abs(), BVCmp(le, hv.T, start)))
		}
	}
	return terminates
}

func blockOf(v ssa.Value) *ssa.BasicBlock {
	if ins, ok := v.(ssa.Instruction); ok {
		return ins.Block()
	}
	return nil
}

// resolveEpoch decides, per state key, whether the loop modifies it.
func (fr *Frame) resolveEpoch(ep *Epoch, sIn *State, backs []EdgeRec) {
	// keys written anywhere in the loop appear in some back-edge state map (or not at all if the loop has no back edge)
	keys := map[string]bool{}
	for k := range ep.vars {
		keys[k] = true
	}
	for k := range keys {
		hv := ep.vars[k]
		srt := ep.sorts[k]
		unmodified := true
		var targets []*Term
		partial := true
		for _, r := range backs {
			b := r.st.get(k, srt)
			if b == hv {
				continue
			}
			unmodified = false
			if srt.K == KArray && partial {
				ts, ok := storeTargets(b, hv, ep.firstID)
				if !ok {
					partial = false
				} else {
					targets = append(targets, ts...)
				}
			} else {
				partial = false
			}
		}
		if unmodified {
			hv.Def = sIn.get(k, srt)
			continue
		}
		if k == "alive" {
			continue // monotonicity was assumed at the loop header
		}
		if partial && srt.K == KArray {
			base := sIn.get(k, srt)
			seen := map[*Term]bool{}
			for _, t := range targets {
				if seen[t] {
					continue
				}
				seen[t] = true
				base = Store(base, t, FreshVar("hv_"+k, srt.Elem))
			}
			hv.Def = base
		}
	}
}

// storeTargets: b is built from base hv by stores (through ite); returns the store indices if all of them
// were created before the loop (loop-invariant), else ok=false.
func storeTargets(b, hv *Term, firstID int) ([]*Term, bool) {
	if b == hv {
		return nil, true
	}
	if b.Def != nil {
		return storeTargets(b.Def, hv, firstID)
	}
	switch b.Op {
	case "store":
		if len(b.Args) == 3 {
			idx := b.Args[1]
			if !(idx.ID <= firstID || idx.Lit) {
				return nil, false
			}
			ts, ok := storeTargets(b.Args[0], hv, firstID)
			return append(ts, idx), ok
		}
	case "ite":
		t1, ok1 := storeTargets(b.Args[1], hv, firstID)
		t2, ok2 := storeTargets(b.Args[2], hv, firstID)
		return append(t1, t2...), ok1 && ok2
	}
	return nil, false
}

func (fr *Frame) runLoopUnrolled(li *LoopInfo, k int) {
	h := li.header
	fr.unroll = append(fr.unroll, li)
	savedTag := fr.iterTag
	defer func() { fr.unroll = fr.unroll[:len(fr.unroll)-1]; fr.iterTag = savedTag }()
	for it := 0; it <= k; it++ {
		in := fr.takeIncoming(h)
		if len(in) == 0 {
			break
		}
		if it == k {
			// unwinding assertion: no further iteration possible... the header may still be entered to take the exit
		}
		for b := range li.blocks {
			fr.done[b] = false
		}
		fr.iterTag = fmt.Sprintf("%s~it%d", savedTag, it)
		if !fr.enterBlock(h, in, nil) {
			break
		}
		fr.execBlock(h)
		fr.runRegion(li)
		if it == k {
			backs := fr.takeIncoming(h)
			var cs []*Term
			for _, r := range backs {
				cs = append(cs, r.cond)
			}
			fr.curReach = TTrue
			// the unwinding assertion is an obligation even when the loop is unrolled inside specification code:
			// a truncated unrolling would silently drop behaviours
			savedSpec, savedQ := fr.spec, fr.inQuant
			if !fr.inQuant {
				fr.spec = false
			}
			fr.ctx.oblige(fr, fmt.Sprintf("loop%d-unwind", li.ordinal), fmt.Sprintf("%d", k), Not(Or(cs...)), h.Instrs[0].Pos())
			fr.spec, fr.inQuant = savedSpec, savedQ
		}
	}
	for b := range li.blocks {
		fr.done[b] = true
	}
}

// ---- loop spec evaluation ----

// bindLoopVars resolves the declared loop variables to current SSA values at header h.
func (fr *Frame) loopArgs(li *LoopInfo, ls *LoopSpec, gen *ssa.Function) []Val {
	c := fr.ctx
	// parameters of gen: contract params (possibly renamed old_x), ghosts, then loop vars
	lv := parseVarList(ls.Vars)
	nlv := len(lv)
	np := len(gen.Params) - nlv
	args := make([]Val, len(gen.Params))
	// contract params map to fr.fn params by position (receiver first)
	for i := 0; i < np; i++ {
		if i < len(fr.fn.Params) {
			args[i] = fr.vals[fr.fn.Params[i]]
		} else {
			// ghost
			name := gen.Params[i].Name()
			g, ok := c.ghostVal(name, gen.Params[i].Type())
			if !ok {
				unsupported("ghost %s not bound", name)
			}
			args[i] = g
		}
	}
	for j, v := range lv {
		val, ok := fr.lookupLocal(li, v.Name)
		if !ok {
			panic(BindError{fmt.Sprintf("loop %d of %s: no variable named %q at the loop header", li.ordinal, fr.fn, v.Name)})
		}
		args[np+j] = val
	}
	return args
}

type BindError struct{ Msg string }

func (b BindError) Error() string { return b.Msg }

// lookupLocal finds the current value of source variable name at loop header li.header.
func (fr *Frame) lookupLocal(li *LoopInfo, name string) (Val, bool) {
	h := li.header
	for _, ins := range h.Instrs {
		phi, ok := ins.(*ssa.Phi)
		if !ok {
			break
		}
		if phi.Comment == name {
			return fr.vals[phi], true
		}
	}
	// rangeindexN: the hidden index of the enclosing range loop with ordinal N (usable in loops nested inside it)
	if strings.HasPrefix(name, "rangeindex") && len(name) > len("rangeindex") {
		var n int
		if _, err := fmt.Sscanf(name[len("rangeindex"):], "%d", &n); err == nil {
			for _, lo := range fr.info.loops {
				if lo.ordinal != n || !lo.header.Dominates(h) {
					continue
				}
				for _, ins := range lo.header.Instrs {
					if phi, ok := ins.(*ssa.Phi); ok && phi.Comment == "rangeindex" {
						if v, ok := fr.vals[phi]; ok {
							return v, true
						}
					}
				}
			}
		}
	}
	for _, p := range fr.fn.Params {
		if p.Name() == name {
			return fr.vals[p], true
		}
	}
	// address-taken local
	for _, b := range fr.fn.Blocks {
		for _, ins := range b.Instrs {
			if a, ok := ins.(*ssa.Alloc); ok && a.Comment == name {
				if pv, ok := fr.vals[a]; ok {
					return fr.load(pv, a.Type().Underlying().(*types.Pointer).Elem(), token.NoPos, false), true
				}
			}
		}
	}
	// DebugRef: last definition dominating the header
	var best ssa.Value
	for _, b := range fr.fn.Blocks {
		if !(b.Dominates(h)) {
			continue
		}
		for _, ins := range b.Instrs {
			if d, ok := ins.(*ssa.DebugRef); ok && !d.IsAddr {
				if id, ok := d.Expr.(*ast.Ident); ok && id.Name == name {
					if _, have := fr.vals[d.X]; have || isConst(d.X) {
						best = d.X
					}
				}
			}
		}
	}
	if best != nil {
		return fr.value(best), true
	}
	return Val{}, false
}

func isConst(v ssa.Value) bool { _, ok := v.(*ssa.Const); return ok }

// evalLoopSpec evaluates the loop's invariants at the current frame state.
// mode "entry": obligations; "assume": assumptions, returns the measure.
func (fr *Frame) evalLoopSpec(li *LoopInfo, ls *LoopSpec, mode string, _ interface{}) *Term {
	c := fr.ctx
	gen := c.eng.genFunc(fr.contract, fmt.Sprintf("_loop%d", li.ordinal))
	if gen == nil {
		return nil
	}
	args := fr.loopArgs(li, ls, gen)
	// old() expressions of the invariant: evaluated once in the entry state of this activation
	savedBinds := c.oldBinds
	c.oldBinds = map[int]Val{}
	defer func() { c.oldBinds = savedBinds }()
	if og := c.eng.genFunc(fr.contract, fmt.Sprintf("_loop%d_olds", li.ordinal)); og != nil {
		oargs := make([]Val, len(og.Params))
		for i := range og.Params {
			if i < len(fr.fn.Params) {
				oargs[i] = fr.vals[fr.fn.Params[i]]
			} else if g, ok := c.ghostVal(og.Params[i].Name(), og.Params[i].Type()); ok {
				oargs[i] = g
			} else {
				unsupported("ghost %s not bound", og.Params[i].Name())
			}
		}
		c.runFunc(og, oargs, nil, fr.entry.clone(), TTrue, fr, frameOpts{spec: true})
	}
	var measure *Term
	tag := fmt.Sprintf("loop%d", li.ordinal)
	h := li.header
	c.runSpecFunc(gen, args, fr.cur, fr.abs(), fr, func(kind string, cond *Term, label string, pos token.Pos) {
		switch kind {
		case "invariant":
			switch mode {
			case "entry":
				c.oblige(fr, tag+"-inv-entry", label, cond, h.Instrs[0].Pos())
			case "assume":
				c.assume(Implies(fr.abs(), cond))
			case "back":
				c.oblige(fr, tag+"-inv-preserved", label, cond, h.Instrs[0].Pos())
			}
		case "decreases":
			measure = cond
		}
	})
	return measure
}

func (fr *Frame) evalLoopSpecBack(li *LoopInfo, ls *LoopSpec, i int) *Term {
	return fr.evalLoopSpec(li, ls, "back", nil)
}

// ---- source text for obligation names ----

func (e *Engine) exprText(pos token.Pos, want string) string {
	if !pos.IsValid() {
		return ""
	}
	p := e.fset.Position(pos)
	f := e.astFiles[p.Filename]
	if f == nil {
		return ""
	}
	path, _ := astutil.PathEnclosingInterval(f, pos, pos)
	for _, n := range path {
		ok := false
		switch n.(type) {
		case *ast.IndexExpr:
			ok = want == "index"
		case *ast.SliceExpr:
			ok = want == "slice"
		case *ast.CallExpr:
			ok = want == "call"
		case *ast.SelectorExpr, *ast.StarExpr:
			ok = want == "deref"
		case *ast.BinaryExpr:
			ok = want == "binary"
		case *ast.TypeAssertExpr:
			ok = want == "assert"
		}
		if ok {
			var sb strings.Builder
			printer.Fprint(&sb, e.fset, n)
			s := sb.String()
			s = strings.Join(strings.Fields(s), " ")
			if len(s) > 80 {
				s = s[:80]
			}
			return s
		}
	}
	return ""
}

var _ = packages.NeedName
var _ = math.Pi
