package main

// Component heap: values of datatype sort (structs, slice headers, interfaces) are never stored in SMT
// arrays as such; every scalar component has its own array ("f:T.f#sl_len", "e:Point#X" ...). Most VCs are
// therefore free of datatypes and fall into QF_ABV / QF_AUFBV.

type leaf struct {
	suffix string
	sort   *Sort
	path   []int
}

var leafCache = map[*Sort][]leaf{}

func leavesOf(s *Sort) []leaf {
	if l, ok := leafCache[s]; ok {
		return l
	}
	var out []leaf
	if s.K != KData {
		out = []leaf{{suffix: "", sort: s}}
	} else {
		for i, f := range s.Data.Fields {
			for _, sub := range leavesOf(f.Sort) {
				out = append(out, leaf{suffix: "#" + f.Name + sub.suffix, sort: sub.sort, path: append([]int{i}, sub.path...)})
			}
		}
	}
	leafCache[s] = out
	return out
}

func leafVal(v *Term, l leaf) *Term {
	for _, i := range l.path {
		v = DataField_(v, i)
	}
	return v
}

// assemble builds a value of sort s from its leaf values (in leavesOf order).
func assemble(s *Sort, vals []*Term) *Term {
	pos := 0
	var rec func(s *Sort) *Term
	rec = func(s *Sort) *Term {
		if s.K != KData {
			v := vals[pos]
			pos++
			return v
		}
		args := make([]*Term, len(s.Data.Fields))
		for i, f := range s.Data.Fields {
			args[i] = rec(f.Sort)
		}
		return MkData(s, args...)
	}
	return rec(s)
}

func objRead(st *State, key string, s *Sort, ref *Term) *Term {
	ls := leavesOf(s)
	vals := make([]*Term, len(ls))
	for i, l := range ls {
		vals[i] = Select(st.get(key+l.suffix, SArray(SRef, l.sort)), ref)
	}
	return assemble(s, vals)
}

func objWrite(st *State, key string, s *Sort, ref, val *Term) {
	for _, l := range leavesOf(s) {
		k := key + l.suffix
		a := st.get(k, SArray(SRef, l.sort))
		st.set(k, Store(a, ref, leafVal(val, l)))
	}
}

func elemHeapSort(ls *Sort) *Sort { return SArray(SRef, SArray(SInt, ls)) }

func elemRead(st *State, key string, s *Sort, arr, idx *Term) *Term {
	ls := leavesOf(s)
	vals := make([]*Term, len(ls))
	for i, l := range ls {
		vals[i] = Select(Select(st.get(key+l.suffix, elemHeapSort(l.sort)), arr), idx)
	}
	return assemble(s, vals)
}

func elemWrite(st *State, key string, s *Sort, arr, idx, val *Term) {
	for _, l := range leavesOf(s) {
		k := key + l.suffix
		h := st.get(k, elemHeapSort(l.sort))
		st.set(k, Store(h, arr, Store(Select(h, arr), idx, leafVal(val, l))))
	}
}

// elemInners returns, per leaf, the inner array (index -> leaf value) of backing array arr.
func elemInners(st *State, key string, s *Sort, arr *Term) []*Term {
	ls := leavesOf(s)
	out := make([]*Term, len(ls))
	for i, l := range ls {
		out[i] = Select(st.get(key+l.suffix, elemHeapSort(l.sort)), arr)
	}
	return out
}

func elemSetInners(st *State, key string, s *Sort, arr *Term, inners []*Term) {
	for i, l := range leavesOf(s) {
		k := key + l.suffix
		h := st.get(k, elemHeapSort(l.sort))
		st.set(k, Store(h, arr, inners[i]))
	}
}

func elemHavocInners(st *State, key string, s *Sort, arr *Term, hint string) {
	ls := leavesOf(s)
	in := make([]*Term, len(ls))
	for i, l := range ls {
		in[i] = FreshVar(hint, SArray(SInt, l.sort))
	}
	elemSetInners(st, key, s, arr, in)
}

// elemAt reads element idx from per-leaf inner arrays.
func elemAt(s *Sort, inners []*Term, idx *Term) *Term {
	vals := make([]*Term, len(inners))
	for i := range inners {
		vals[i] = Select(inners[i], idx)
	}
	return assemble(s, vals)
}

func baseKey(k string) string {
	for i := 0; i < len(k); i++ {
		if k[i] == '#' {
			return k[:i]
		}
	}
	return k
}
