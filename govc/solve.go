package main

// Solver racing and model extraction.

import (
	"bytes"
	"context"
	"fmt"
	"os"
	"os/exec"
	"path/filepath"
	"regexp"
	"strings"
	"sync"
	"time"
)

type SolverSpec struct {
	Name string
	Cmd  func(file string, timeoutS int, seed int) []string
	CVC5 bool
}

var solvers = []SolverSpec{
	{Name: "z3-4.8.12", Cmd: func(f string, t int, seed int) []string {
		return []string{"/usr/bin/z3", fmt.Sprintf("-T:%d", t), fmt.Sprintf("smt.random_seed=%d", seed), f}
	}},
	{Name: "z3-5.1.0", Cmd: func(f string, t int, seed int) []string {
		return []string{"z3-new", fmt.Sprintf("-T:%d", t), fmt.Sprintf("smt.random_seed=%d", seed), f}
	}},
	{Name: "cvc5-1.0.3", CVC5: true, Cmd: func(f string, t int, seed int) []string {
		return []string{"/usr/bin/cvc5", "--produce-models", fmt.Sprintf("--tlimit=%d", t*1000), fmt.Sprintf("--seed=%d", seed), f}
	}},
}

type SolveResult struct {
	Status string // unsat sat unknown timeout error
	Solver string
	Time   float64
	Output string
	Values map[string]string
	All    map[string]string // per-solver status
}

var sanitizeFile = regexp.MustCompile(`[^A-Za-z0-9_.()\[\]#@~+-]`)

func obligFile(dir, name string) string {
	n := sanitizeFile.ReplaceAllString(name, "_")
	if len(n) > 180 {
		n = n[:180]
	}
	return filepath.Join(dir, n+".smt2")
}

// solveOblig races the solvers on one obligation.
func solveOblig(dir string, assumes []*Term, ob *Oblig, getValues []*Term, timeoutS int, seed int, both bool) SolveResult {
	as := assumes[:ob.NAssume]
	scriptZ3, _ := BuildScript(as, ob.Goal, getValues, false)
	scriptCVC, _ := BuildScript(as, ob.Goal, getValues, true)
	base := obligFile(dir, ob.Name)
	ob.File = base
	os.WriteFile(base, []byte(scriptZ3), 0644)
	cvcFile := strings.TrimSuffix(base, ".smt2") + ".cvc5.smt2"
	os.WriteFile(cvcFile, []byte(scriptCVC), 0644)
	return raceFiles(base, cvcFile, timeoutS, seed, both)
}

func raceFiles(base, cvcFile string, timeoutS, seed int, both bool) SolveResult {
	ctx, cancel := context.WithCancel(context.Background())
	defer cancel()
	type one struct {
		name, status, out string
		t                 float64
	}
	ch := make(chan one, len(solvers))
	var wg sync.WaitGroup
	for _, s := range solvers {
		f := base
		if s.CVC5 {
			f = cvcFile
		}
		wg.Add(1)
		go func(s SolverSpec, f string) {
			defer wg.Done()
			args := s.Cmd(f, timeoutS, seed)
			start := time.Now()
			cctx, ccancel := context.WithTimeout(ctx, time.Duration(timeoutS+5)*time.Second)
			defer ccancel()
			cmd := exec.CommandContext(cctx, args[0], args[1:]...)
			var out bytes.Buffer
			cmd.Stdout = &out
			cmd.Stderr = &out
			cmd.Run()
			el := time.Since(start).Seconds()
			o := out.String()
			first := strings.TrimSpace(strings.SplitN(o, "\n", 2)[0])
			st := "unknown"
			switch {
			case first == "unsat":
				st = "unsat"
			case first == "sat":
				st = "sat"
			case strings.Contains(first, "timeout") || strings.Contains(o, "interrupted by timeout") || cctx.Err() != nil:
				st = "timeout"
			case strings.HasPrefix(first, "(error") || strings.Contains(first, "rror"):
				st = "error"
			}
			ch <- one{s.Name, st, o, el}
		}(s, f)
	}
	go func() { wg.Wait(); close(ch) }()
	res := SolveResult{Status: "unknown", All: map[string]string{}}
	var firstDef *one
	n := 0
	for r := range ch {
		r := r
		n++
		res.All[r.name] = fmt.Sprintf("%s %.2fs", r.status, r.t)
		if r.status == "unsat" || r.status == "sat" {
			if firstDef == nil {
				firstDef = &r
				if !both {
					cancel()
				} else {
					// cross-check mode: give the other solvers a grace period (30 s or three times the winner's time), not
					// their whole budget, to confirm or contradict the answer
					grace := 30 * time.Second
					if g := time.Duration(3*r.t*float64(time.Second)); g > grace {
						grace = g
					}
					time.AfterFunc(grace, cancel)
				}
			} else if firstDef.status != r.status {
				res.Output += fmt.Sprintf("SOLVER DISAGREEMENT: %s says %s, %s says %s\n", firstDef.name, firstDef.status, r.name, r.status)
			}
		} else if firstDef == nil {
			if r.status == "error" {
				res.Output += fmt.Sprintf("[%s] %s\n", r.name, firstLines(r.out, 3))
			}
			if res.Status == "unknown" && r.status == "timeout" {
				res.Status = "timeout"
			}
		}
	}
	if firstDef != nil {
		res.Status = firstDef.status
		res.Solver = firstDef.name
		res.Time = firstDef.t
		if firstDef.status == "sat" {
			res.Output += firstDef.out
			res.Values = parseValues(firstDef.out)
		}
		if strings.Contains(res.Output, "SOLVER DISAGREEMENT") {
			res.Status = "unknown"
		}
	}
	return res
}

func firstLines(s string, n int) string {
	l := strings.Split(s, "\n")
	if len(l) > n {
		l = l[:n]
	}
	return strings.Join(l, " | ")
}

// parseValues parses the (get-value ...) answer: ((term value) (term value) ...)
func parseValues(out string) map[string]string {
	res := map[string]string{}
	i := strings.Index(out, "\n")
	if i < 0 {
		return res
	}
	s := strings.TrimSpace(out[i+1:])
	if !strings.HasPrefix(s, "(") {
		return res
	}
	// top-level list of pairs
	items := splitSexp(s[1:])
	for _, it := range items {
		it = strings.TrimSpace(it)
		if !strings.HasPrefix(it, "(") {
			continue
		}
		kv := splitSexp(it[1 : len(it)-1])
		if len(kv) == 2 {
			res[strings.TrimSpace(kv[0])] = strings.TrimSpace(kv[1])
		}
	}
	return res
}

// splitSexp splits a sequence of s-expressions at top level.
func splitSexp(s string) []string {
	var out []string
	depth := 0
	start := -1
	for i := 0; i < len(s); i++ {
		ch := s[i]
		switch {
		case ch == '(':
			if depth == 0 && start < 0 {
				start = i
			}
			depth++
		case ch == ')':
			depth--
			if depth == 0 && start >= 0 {
				out = append(out, s[start:i+1])
				start = -1
			}
			if depth < 0 {
				return out
			}
		case ch == ' ' || ch == '\n' || ch == '\t':
			if depth == 0 && start >= 0 {
				out = append(out, s[start:i])
				start = -1
			}
		default:
			if depth == 0 && start < 0 {
				start = i
			}
		}
	}
	if start >= 0 {
		out = append(out, s[start:])
	}
	return out
}
