package main

import (
	"encoding/json"
	"fmt"
	"os"
	"path/filepath"
	"sort"
	"strings"
	"time"

	"golang.org/x/tools/go/ssa"
	"golang.org/x/tools/go/ssa/ssautil"
)

func allFuncs(eng *Engine, sp *ssa.Package) map[*ssa.Function]bool {
	res := map[*ssa.Function]bool{}
	for fn := range ssautil.AllFunctions(eng.prog) {
		if fn.Pkg == sp {
			res[fn] = true
		}
	}
	return res
}

type KnownFinding struct {
	Prop, Oblig, Text string
	Fixed bool
}

func loadKnown(path string) []KnownFinding {
	data, err := os.ReadFile(path)
	if err != nil {
		return nil
	}
	var out []KnownFinding
	for _, l := range strings.Split(string(data), "\n") {
		l = strings.TrimSpace(l)
		if l == "" || strings.HasPrefix(l, "#") {
			continue
		}
		var k KnownFinding
		if strings.HasPrefix(l, "fixed:") {
			k.Fixed = true
		} else if !strings.HasPrefix(l, "finding:") {
			continue
		}
		for _, f := range strings.Fields(l) {
			if strings.HasPrefix(f, "property=") {
				k.Prop = strings.TrimPrefix(f, "property=")
			}
			if strings.HasPrefix(f, "obligation=") {
				k.Oblig = strings.TrimPrefix(f, "obligation=")
			}
		}
		k.Text = l
		out = append(out, k)
	}
	return out
}

func report(eng *Engine, units []*Unit, start time.Time, workdir string, timeout, seed int) int {
	prop := *flagProp
	known := loadKnown(*flagKnown)
	total, discharged := 0, 0
	bySolver := map[string]int{}
	solverTime := map[string]float64{}
	var failures []*Oblig
	var failUnits []*Unit
	var undecided []string
	var funcs []string
	var assumed []string
	var notes []string
	opaque := map[string]int{}
	var termUnproved []string
	var samples []map[string]interface{}
	broken := false
	var skipped []string
	canaries, canaryOK := 0, 0
	siteCanaries := 0
	siteBefore := map[string]string{}
	for _, u := range units {
		if u.Assumed {
			assumed = append(assumed, fmt.Sprintf("%s: contract assumed (%s)", u.Name, u.Contract.Flags["assumed"]+u.Contract.Flags["trusted"]))
			continue
		}
		if u.Missing {
			why := "target-missing"
			if u.MissingWhy != "" {
				why = u.MissingWhy
			}
			undecided = append(undecided, u.Name+": "+why)
			fmt.Printf("UNDECIDED %s %s\n", u.Name, why)
			continue
		}
		if u.Err != "" {
			fmt.Printf("ENGINE-ERROR %s: %s\n", u.Name, u.Err)
			broken = true
			continue
		}
		funcs = append(funcs, u.Name)
		for _, t := range u.Trusted {
			assumed = append(assumed, fmt.Sprintf("%s: postcondition [%s] is assumed, not proved", u.Name, t))
		}
		if len(u.Obligs) == 0 {
			fmt.Printf("VACUOUS %s: zero obligations\n", u.Name)
			broken = true
		}
		for _, n := range u.Notes {
			notes = append(notes, u.Name+": "+n)
		}
		for k, v := range u.Opaque {
			opaque[k] += v
		}
		termUnproved = append(termUnproved, u.TermUnproved...)
		for _, ob := range u.Obligs {
			if ob.Status == "skipped" {
				skipped = append(skipped, ob.Name)
				continue
			}
			if ob.Kind == "canary-before" {
				siteBefore[strings.Replace(ob.Name, "#canary-before(", "#canary-after(", 1)] = ob.Status
				continue
			}
			if ob.Kind == "canary-after" {
				siteCanaries++
				if ob.Status == "unsat" && siteBefore[ob.Name] == "sat" {
					fmt.Printf("VACUOUS %s: reachable before a call but not after it: the callee's assumed postconditions contradict what is known (%s)\n", u.Name, ob.Name)
					broken = true
				}
				continue
			}
			if ob.Kind == "canary" {
				canaries++
				if ob.Status == "unsat" {
					fmt.Printf("VACUOUS %s: contract preconditions/assumptions are contradictory or the function never returns\n", u.Name)
					broken = true
				} else if ob.Status == "sat" {
					canaryOK++
				}
				continue
			}
			total++
			if ob.Status == "unsat" {
				discharged++
				bySolver[ob.Solver]++
				solverTime[ob.Solver] += ob.Time
				if len(samples) < 6 && ob.Solver != "trivial" {
					sz := int64(0)
					if fi, err := os.Stat(ob.File); err == nil {
						sz = fi.Size()
					}
					samples = append(samples, map[string]interface{}{"obligation": ob.Name, "solver": ob.Solver, "time_s": ob.Time, "smt_bytes": sz})
				}
			} else {
				failures = append(failures, ob)
				failUnits = append(failUnits, u)
			}
		}
	}
	violations := 0
	var knownLines []string
	for i, ob := range failures {
		isKnown := false
		for _, k := range known {
			if !k.Fixed && k.Prop == prop && k.Oblig == ob.Name {
				isKnown = true
				knownLines = append(knownLines, strings.TrimPrefix(k.Text, "finding: "))
			}
		}
		if isKnown {
			continue
		}
		violations++
		var detail strings.Builder
		rp := writeReplay(eng, failUnits[i], ob, prop, &detail, violations <= 8)
		suffix := ""
		if !rp.Confirmed {
			suffix = " no-failing-input-found"
		}
		fmt.Printf("VIOLATION property=%s replay=%s%s\n", prop, rp.Path, suffix)
		fmt.Printf("  obligation %s: %s (%s)\n", ob.Name, ob.Status, firstLines(ob.Output, 2))
		fmt.Print(detail.String())
	}
	for _, k := range knownLines {
		fmt.Printf("KNOWN-FINDING: %s\n", k)
	}
	wall := time.Since(start).Seconds()
	fmt.Printf("property=%s tier=%s units=%d obligations=%d discharged=%d failed=%d known=%d wall=%.1fs\n", prop, *flagTier, len(funcs), total, discharged, len(failures), len(knownLines), wall)
	if *flagEvidence != "" {
		var st float64
		for _, v := range solverTime {
			st += v
		}
		sort.Strings(notes)
		trusted := []string{
			"go/packages + go/ssa (x/tools v0.29.0) faithfully represent the compiled program; SSA->SMT translation of govc",
			"amd64: int/uint/pointers are 64 bits",
			"SMT solvers sound (z3 4.8.12, z3 5.1.0, cvc5 1.0.3 raced; first definite answer)",
			"interface method calls are pure, deterministic and state-independent within one activation",
			"slice/string lengths and capacities are at most 2^40",
		}
		ass := append([]string{}, assumed...)
		for k, v := range opaque {
			ass = append(ass, fmt.Sprintf("opaque call (result unconstrained or uninterpreted): %s x%d", k, v))
		}
		sort.Strings(ass)
		ass = append(ass, notes...)
		ev := map[string]interface{}{
			"property_id": prop,
			"tier":        *flagTier,
			"seed":        seed,
			"level":       "proof",
			"wall_s":      wall,
			"violations":  violations,
			"assumptions": ass,
			"coverage": map[string]interface{}{
				// obligations listed as known findings are reported separately (known_findings) and are neither counted as
				// obligations of the proof claim nor as discharged
				"obligations":  total - len(knownLines),
				"discharged":   discharged,
				"checker_cmd":  fmt.Sprintf("z3 -T:%d <file> | z3-new -T:%d <file> | cvc5 --tlimit=%d <file> (raced per obligation)", timeout, timeout, timeout*1000),
				"trusted_base": trusted,
				"samples":      samples,
				"functions_under_contract": funcs,
				"by_solver":    bySolver,
				"solver_time_s": st,
				"termination_unproved": termUnproved,
				"undecided":    undecided,
				"thorough_only_skipped": append(skipped, skippedUnits...),
				"vacuity": map[string]int{"canaries": canaries, "reachable_confirmed": canaryOK, "call_site_pairs_checked": siteCanaries},
				"known_findings": knownLines,
				"contracts_source": eng.cs.Source,
				"translation_drops": "goroutines/channels/select rejected; maps abstracted; float arithmetic uninterpreted unless contract is marked fp; opaque calls havoc",
			},
		}
		data, _ := json.MarshalIndent(ev, "", " ")
		os.MkdirAll(filepath.Dir(*flagEvidence), 0755)
		os.WriteFile(*flagEvidence, data, 0644)
	}
	if broken {
		return 2
	}
	if total == 0 {
		fmt.Println("no obligations generated: check is vacuous")
		return 2
	}
	if violations > 0 {
		return 1
	}
	return 0
}

type ReplayResult struct {
	Path      string
	Confirmed bool
}

func writeReplay(eng *Engine, u *Unit, ob *Oblig, prop string, detail *strings.Builder, doReplay bool) ReplayResult {
	dir := filepath.Join(*flagReplayDir, prop)
	os.MkdirAll(dir, 0755)
	path := filepath.Join(dir, sanitizeFile.ReplaceAllString(ob.Name, "_")+".json")
	rec := map[string]interface{}{
		"property": prop, "obligation": ob.Name, "status": ob.Status, "solver": ob.Solver, "solver_output": ob.Output,
		"smt_file": ob.File, "source": fmt.Sprintf("%s:%d", ob.Pos.Filename, ob.Pos.Line), "confirmed_on_real_code": false,
		"contract": fmt.Sprintf("%s:%d", u.Contract.File, u.Contract.Line),
	}
	res := ReplayResult{Path: path}
	if !*flagNoReplay && doReplay {
		ro := eng.replayOblig(u, ob)
		rec["confirmed_on_real_code"] = ro.Confirmed
		rec["inputs"] = ro.Inputs
		rec["observed"] = ro.Observed
		rec["not_confirmed_reason"] = ro.Reason
		rec["replay_test"] = ro.TestSrc
		rec["replay_output"] = ro.Output
		res.Confirmed = ro.Confirmed
		if ro.Confirmed {
			fmt.Fprintf(detail, "  replayed on real code: %s | inputs: %s\n", ro.Observed, trunc(strings.Join(ro.Inputs, "; "), 500))
		} else {
			fmt.Fprintf(detail, "  replay not confirmed: %s\n", ro.Reason)
		}
	}
	data, _ := json.MarshalIndent(rec, "", " ")
	os.WriteFile(path, data, 0644)
	return res
}

func trunc(s string, n int) string {
	if len(s) > n {
		return s[:n] + "..."
	}
	return s
}
