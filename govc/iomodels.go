package main

// Models of the I/O primitives the encoders/decoders are built on. The byte stream is adversarial:
// every read returns an unconstrained value and an unconstrained error status, which covers all byte
// strings of all lengths. Two ghost flags record what happened: ghost:readFailed (some read returned a
// non-nil error) and ghost:errRaised (an error value was created by errors.New / fmt.Errorf).

import (
	"fmt"
	"go/token"
	"go/types"

	"golang.org/x/tools/go/ssa"
)

func (fr *Frame) ghostOr(key string, cond *Term) {
	cur := fr.cur.get(key, SBool)
	fr.cur.set(key, Or(cur, And(fr.abs(), cond)))
}

type readEvent struct {
	kind  string // byte, bin, uvarint, bytes
	width int
	val   *Term // value read (bit-vector, float, bool) or inner byte array for "bytes"
	off   *Term
	n     *Term
	err   *Term
	preErr *Term
	reach *Term
	typ   types.Type
}

// recordStreamRead: a call to one of the decoder's primitive readers through its contract is a read event of
// the adversarial stream (used only to rebuild a concrete byte string when a counterexample is replayed).
func (fr *Frame) recordStreamRead(fn *ssa.Function, ct *Contract, args []Val, mk *markerInfo, pre *State) {
	kind := ct.Flags["stream"]
	if kind == "" || len(args) == 0 || len(mk.results) != 1 || mk.results[0].T == nil {
		return
	}
	recv := args[0].term()
	if recv == nil {
		return
	}
	pt, ok := fn.Params[0].Type().Underlying().(*types.Pointer)
	if !ok {
		return
	}
	st, ok := pt.Elem().Underlying().(*types.Struct)
	if !ok {
		return
	}
	for i := 0; i < st.NumFields(); i++ {
		if st.Field(i).Name() == "err" {
			k := fieldKey(pt.Elem(), i)
			preErr := objRead(pre, k, SIface, recv)
			postErr := objRead(fr.cur, k, SIface, recv)
			ev := readEvent{kind: "bin", val: mk.results[0].T, err: postErr, preErr: preErr, reach: fr.abs()}
			if kind == "uvarint" {
				ev.kind = "uvarint"
			}
			fr.ctx.reads = append(fr.ctx.reads, ev)
		}
	}
}

func (fr *Frame) freshErr(hint string) *Term {
	e := FreshVar(hint, SIface)
	// an error interface is either nil (0,0) or has a non-zero type tag
	fr.ctx.assume(Implies(Eq(DataField_(e, 0), BVLit(0, 32)), Eq(DataField_(e, 1), BVLit(0, 64))))
	fr.ghostOr("ghost:readFailed", Not(Eq(DataField_(e, 0), BVLit(0, 32))))
	return e
}

func nonNilIface(t *Term) *Term { return Not(Eq(DataField_(t, 0), BVLit(0, 32))) }

// ioInvoke models interface method calls on readers/writers.
func (fr *Frame) ioInvoke(cc *ssa.CallCommon, recv Val, args []Val, pos token.Pos, resType types.Type) (Val, bool) {
	c := fr.ctx
	switch cc.Method.Name() {
	case "ReadByte":
		if cc.Method.Type().(*types.Signature).Results().Len() != 2 {
			return Val{}, false
		}
		c.oblige(fr, "nil", "interface receiver of ReadByte", nonNilIface(recv.term()), pos)
		b := FreshVar("readbyte", SBV(8))
		er := fr.freshErr("readerr")
		c.reads = append(c.reads, readEvent{kind: "byte", width: 1, val: b, err: er, reach: fr.abs()})
		return Val{Tuple: []Val{{T: b}, {T: er}}}, true
	case "Read", "Write":
		sig := cc.Method.Type().(*types.Signature)
		if sig.Params().Len() != 1 || sig.Results().Len() != 2 {
			return Val{}, false
		}
		c.oblige(fr, "nil", "interface receiver of "+cc.Method.Name(), nonNilIface(recv.term()), pos)
		n := FreshVar("ion", SInt)
		buf := args[0].T
		c.assume(And(BVCmp("bvsle", BVLit(0, 64), n), BVCmp("bvsle", n, DataField_(buf, 2))))
		er := fr.freshErr("ioerr")
		if cc.Method.Name() == "Read" {
			fr.havocElems(buf, types.Typ[types.Uint8])
			// a single Read may legally return fewer bytes than asked for without an error; a decoder that does
			// not notice has consumed a truncated value (ghost flag, part of vcErrorRaised)
			fr.ghostOr("ghost:shortRead", And(BVCmp("bvslt", n, DataField_(buf, 2)), Eq(DataField_(er, 0), BVLit(0, 32))))
		}
		return Val{Tuple: []Val{{T: n}, {T: er}}}, true
	case "Error":
		r := FreshVar("errstr", SSlice)
		c.assume(sliceWF(r))
		return Val{T: r}, true
	}
	return Val{}, false
}

func (fr *Frame) havocElems(sl *Term, et types.Type) {
	elemHavocInners(fr.cur, elemKey(et), sortOf(et), DataField_(sl, 0), "iobytes")
}

func (fr *Frame) ioModel(name string, fn *ssa.Function, args []Val, pos token.Pos, resType types.Type) (Val, bool) {
	c := fr.ctx
	switch name {
	case "encoding/binary.Read":
		// Read(r, order, data any): data is a pointer to a fixed-size value
		data := args[2]
		if data.Dyn == nil || data.DynV == nil {
			unsupported("binary.Read into a value of unknown dynamic type")
		}
		pt, ok := data.Dyn.Underlying().(*types.Pointer)
		if !ok {
			unsupported("binary.Read into non-pointer")
		}
		v := fr.havocVal(pt.Elem(), "binread")
		fr.store(*data.DynV, pt.Elem(), v.T, pos, true)
		er := fr.freshErr("binreaderr")
		c.reads = append(c.reads, readEvent{kind: "bin", val: v.T, err: er, reach: fr.abs(), typ: pt.Elem()})
		return Val{T: er}, true
	case "encoding/binary.Write":
		return Val{T: fr.freshErr("binwriteerr")}, true
	case "encoding/binary.ReadUvarint":
		x := FreshVar("uvarint", SBV(64))
		er := fr.freshErr("uvarinterr")
		c.reads = append(c.reads, readEvent{kind: "uvarint", val: x, err: er, reach: fr.abs()})
		return Val{Tuple: []Val{{T: x}, {T: er}}}, true
	case "encoding/binary.PutUvarint":
		// writes at most 10 bytes into buf (panics if too small): returns n in [1,10]
		buf := args[0].T
		c.oblige(fr, "bounds", "PutUvarint buffer", BVCmp("bvsge", DataField_(buf, 2), BVLit(10, 64)), pos)
		fr.havocElems(buf, types.Typ[types.Uint8])
		n := FreshVar("putuvarint", SInt)
		c.assume(And(BVCmp("bvsle", BVLit(1, 64), n), BVCmp("bvsle", n, BVLit(10, 64))))
		return Val{T: n}, true
	case "io.ReadFull":
		buf := args[1].T
		fr.havocElems(buf, types.Typ[types.Uint8])
		n := FreshVar("readfull", SInt)
		c.assume(And(BVCmp("bvsle", BVLit(0, 64), n), BVCmp("bvsle", n, DataField_(buf, 2))))
		er := fr.freshErr("readfullerr")
		inner := Select(fr.cur.get(elemKey(types.Typ[types.Uint8]), SArray(SRef, SArray(SInt, SBV(8)))), DataField_(buf, 0))
		c.reads = append(c.reads, readEvent{kind: "bytes", val: inner, off: DataField_(buf, 1), n: DataField_(buf, 2), err: er, reach: fr.abs()})
		return Val{Tuple: []Val{{T: n}, {T: er}}}, true
	case "(encoding/binary.littleEndian).Uint64", "(encoding/binary.littleEndian).Uint32", "(encoding/binary.littleEndian).Uint16":
		w := map[string]int{"Uint64": 8, "Uint32": 4, "Uint16": 2}[fn.Name()]
		b := args[1].T
		c.oblige(fr, "bounds", "binary.LittleEndian."+fn.Name()+" buffer", BVCmp("bvsge", DataField_(b, 2), BVLit(uint64(w), 64)), pos)
		inner := Select(fr.cur.get(elemKey(types.Typ[types.Uint8]), SArray(SRef, SArray(SInt, SBV(8)))), DataField_(b, 0))
		var acc *Term
		for i := 0; i < w; i++ {
			by := Select(inner, BV("bvadd", DataField_(b, 1), BVLit(uint64(i), 64)))
			if acc == nil {
				acc = by
			} else {
				acc = Concat(by, acc)
			}
		}
		return Val{T: acc}, true
	case "bufio.NewReader":
		r := c.freshRef(fr, types.Typ[types.Int], "bufio")
		_ = r
		return Val{T: r}, true
	case "bytes.NewReader", "bytes.NewBuffer":
		r := c.freshRef(fr, types.Typ[types.Int], "bytesreader")
		return Val{T: r}, true
	}
	return Val{}, false
}

var _ = fmt.Sprintf
