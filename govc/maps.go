package main

// Map model: a map value is a reference; per map type three component classes hold, per reference,
// the key set (key -> Bool), the values (key -> V, decomposed into leaves) and the length.
// len is maintained by update/delete exactly as Go does (grows only when the key was absent).

import (
	"go/token"
	"go/types"

	"golang.org/x/tools/go/ssa"
)

func mapKeys(mt *types.Map) (hasKey, valKey, lenKey string) {
	k := typeKey(mt)
	return "mk:" + k, "mv:" + k, "ml:" + k
}

func mapHasSort(mt *types.Map) *Sort { return SArray(SRef, SArray(sortOf(mt.Key()), SBool)) }

func (fr *Frame) mapHas(mt *types.Map, m, k *Term) *Term {
	hk, _, _ := mapKeys(mt)
	return Select(Select(fr.cur.get(hk, mapHasSort(mt)), m), k)
}

func (fr *Frame) mapLen(mt *types.Map, m *Term) *Term {
	_, _, lk := mapKeys(mt)
	return Select(fr.cur.get(lk, SArray(SRef, SInt)), m)
}

func (fr *Frame) mapGet(mt *types.Map, m, k *Term) *Term {
	_, vk, _ := mapKeys(mt)
	vs := sortOf(mt.Elem())
	ks := sortOf(mt.Key())
	ls := leavesOf(vs)
	vals := make([]*Term, len(ls))
	for i, l := range ls {
		vals[i] = Select(Select(fr.cur.get(vk+l.suffix, SArray(SRef, SArray(ks, l.sort))), m), k)
	}
	return Ite(fr.mapHas(mt, m, k), assemble(vs, vals), zeroOfSort(vs))
}

func (fr *Frame) mapSet(mt *types.Map, m, k, v *Term) {
	hk, vk, lk := mapKeys(mt)
	ks := sortOf(mt.Key())
	vs := sortOf(mt.Elem())
	had := fr.mapHas(mt, m, k)
	hs := fr.cur.get(hk, mapHasSort(mt))
	fr.cur.set(hk, Store(hs, m, Store(Select(hs, m), k, TTrue)))
	for _, l := range leavesOf(vs) {
		key := vk + l.suffix
		h := fr.cur.get(key, SArray(SRef, SArray(ks, l.sort)))
		fr.cur.set(key, Store(h, m, Store(Select(h, m), k, leafVal(v, l))))
	}
	ln := fr.cur.get(lk, SArray(SRef, SInt))
	old := Select(ln, m)
	fr.cur.set(lk, Store(ln, m, Ite(had, old, BV("bvadd", old, BVLit(1, 64)))))
}

func (fr *Frame) mapDelete(mt *types.Map, m, k *Term) {
	hk, _, lk := mapKeys(mt)
	had := fr.mapHas(mt, m, k)
	hs := fr.cur.get(hk, mapHasSort(mt))
	fr.cur.set(hk, Store(hs, m, Store(Select(hs, m), k, TFalse)))
	ln := fr.cur.get(lk, SArray(SRef, SInt))
	old := Select(ln, m)
	fr.cur.set(lk, Store(ln, m, Ite(had, BV("bvsub", old, BVLit(1, 64)), old)))
}

func (fr *Frame) makeMap(x *ssa.MakeMap) {
	c := fr.ctx
	mt := x.Type().Underlying().(*types.Map)
	r := c.freshRef(fr, types.Typ[types.Int], "map")
	hk, _, lk := mapKeys(mt)
	hs := fr.cur.get(hk, mapHasSort(mt))
	ks := sortOf(mt.Key())
	fr.cur.set(hk, Store(hs, r, App("(as const "+SArray(ks, SBool).String()+")", SArray(ks, SBool), TFalse)))
	ln := fr.cur.get(lk, SArray(SRef, SInt))
	fr.cur.set(lk, Store(ln, r, BVLit(0, 64)))
	fr.vals[x] = Val{T: r}
}

func (fr *Frame) mapUpdate(x *ssa.MapUpdate) {
	mt := x.Map.Type().Underlying().(*types.Map)
	m := fr.term(x.Map)
	fr.ctx.oblige(fr, "nil", "assignment to entry in nil map", Not(Eq(m, BVLit(0, 64))), x.Pos())
	v := fr.value(x.Value).term()
	if v == nil {
		unsupported("map value that is not a first-order term")
	}
	fr.mapSet(mt, m, fr.term(x.Key), v)
}

func (fr *Frame) mapLookup(x *ssa.Lookup) {
	mt := x.X.Type().Underlying().(*types.Map)
	m := fr.term(x.X)
	k := fr.term(x.Index)
	v := fr.mapGet(mt, m, k)
	// a nil map behaves like an empty one for reads
	has := And(Not(Eq(m, BVLit(0, 64))), fr.mapHas(mt, m, k))
	v = Ite(has, v, zeroOfSort(v.S))
	if x.CommaOk {
		fr.vals[x] = Val{Tuple: []Val{{T: v}, {T: has}}}
	} else {
		fr.vals[x] = Val{T: v}
	}
}

var _ = token.NoPos

// havocMap: the contents (key set, values, length) of map m become unknown; length stays non-negative.
func (fr *Frame) havocMap(mt *types.Map, m *Term) {
	hk, vk, lk := mapKeys(mt)
	ks := sortOf(mt.Key())
	hs := fr.cur.get(hk, mapHasSort(mt))
	fr.cur.set(hk, Store(hs, m, FreshVar("mapkeys", SArray(ks, SBool))))
	for _, l := range leavesOf(sortOf(mt.Elem())) {
		key := vk + l.suffix
		h := fr.cur.get(key, SArray(SRef, SArray(ks, l.sort)))
		fr.cur.set(key, Store(h, m, FreshVar("mapvals", SArray(ks, l.sort))))
	}
	ln := fr.cur.get(lk, SArray(SRef, SInt))
	nl := FreshVar("maplen", SInt)
	fr.ctx.assume(And(BVCmp("bvsle", BVLit(0, 64), nl), BVCmp("bvsle", nl, BVLit(maxLen, 64))))
	fr.cur.set(lk, Store(ln, m, nl))
}
