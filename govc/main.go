package main

import (
	"flag"
	"fmt"
	"os"
	"sort"
	"strings"
	"sync"
	"sync/atomic"
	"time"
)

var (
	flagRepo      = flag.String("repo", "/repo", "repository root")
	flagMirror    = flag.String("mirror", "/verif/contracts", "contract mirror")
	flagProp      = flag.String("prop", "", "property id")
	flagTier      = flag.String("tier", "quick", "quick|thorough")
	flagUnit      = flag.String("unit", "", "only units whose name contains this")
	flagOut       = flag.String("out", "/verif/.work", "work directory for SMT files")
	flagTimeout   = flag.Int("timeout", 0, "per-obligation solver timeout (s)")
	flagDump      = flag.Bool("dumpgen", false, "print generated contract source")
	flagV         = flag.Bool("v", false, "verbose")
	flagJobs      = flag.Int("j", 5, "obligations in flight")
	flagSSA       = flag.String("ssa", "", "dump SSA of function")
	flagEvidence  = flag.String("evidence", "", "evidence file to write")
	flagKnown     = flag.String("known", "/verif/known_findings.txt", "known findings file")
	flagReplayDir = flag.String("replaydir", "/verif/replay", "replay directory")
	flagNoReplay  = flag.Bool("noreplay", false, "skip replay of counterexamples")
)

func main() {
	flag.Parse()
	start := time.Now()
	eng := newEngine(*flagRepo, *flagMirror)
	if err := eng.load(); err != nil {
		if *flagDump {
			for d, s := range eng.genSrc {
				fmt.Printf("==== %s ====\n", d)
				for i, l := range strings.Split(s, "\n") {
					fmt.Printf("%4d %s\n", i+1, l)
				}
			}
		}
		fmt.Fprintln(os.Stderr, "LOAD ERROR:", err)
		os.Exit(2)
	}
	if *flagDump {
		for d, s := range eng.genSrc {
			fmt.Printf("==== %s ====\n%s\n", d, s)
		}
	}
	if *flagSSA != "" {
		for _, sp := range eng.pkgs {
			for _, m := range sp.Members {
				_ = m
			}
		}
		dumpSSA(eng, *flagSSA)
		return
	}
	if *flagV {
		fmt.Fprintf(os.Stderr, "loaded in %.1fs\n", time.Since(start).Seconds())
	}
	os.Exit(runCheck(eng, start))
}

var skippedUnits []string

type unitResult struct {
	u *Unit
}

func selectUnits(eng *Engine) []*Contract {
	var out []*Contract
	var dirs []string
	for d := range eng.cs.ByPkg {
		dirs = append(dirs, d)
	}
	sort.Strings(dirs)
	for _, d := range dirs {
		for _, c := range eng.cs.ByPkg[d] {
			if c.Kind == "spec" && c.Flags["decreases"] == "" {
				continue
			}
			if *flagProp != "" {
				ok := false
				for _, p := range c.Props {
					if p == *flagProp {
						ok = true
					}
				}
				if !ok {
					continue
				}
			}
			if *flagUnit != "" && !strings.Contains(c.Pkg+"."+c.Name, *flagUnit) {
				continue
			}
			if c.Flags["thorough"] != "" && *flagTier != "thorough" {
				skippedUnits = append(skippedUnits, c.Pkg+"."+c.Name)
				continue
			}
			out = append(out, c)
		}
	}
	return out
}

type job struct {
	genSplits       func(j *job)
	u               *Unit
	ob              *Oblig
	z3file, cvcfile string
	iz3, icvc       []string
}

func runCheck(eng *Engine, start time.Time) int {
	cts := selectUnits(eng)
	if len(cts) == 0 {
		fmt.Fprintln(os.Stderr, "no contracts selected")
		return 2
	}
	timeout := *flagTimeout
	if timeout == 0 {
		// generous limits: on the unchanged tree no obligation of the quick tier needs more than about a minute on an
		// idle machine, and a loaded machine (the harness runs a whole property's obligations in parallel) must not turn
		// a slow proof into a false alarm; only hard or failing obligations ever use the budget
		timeout = 150
		if *flagTier == "thorough" {
			timeout = 400
		}
	}
	// one working directory per run (property, tier, process): two runs of the same property must not delete each
	// other's SMT files; directories left by processes that no longer exist are removed first
	base := *flagProp
	if base == "" {
		base = "all"
	}
	if ents, err := os.ReadDir(*flagOut); err == nil {
		for _, en := range ents {
			nm := en.Name()
			if !strings.HasPrefix(nm, base+".") && nm != base {
				continue
			}
			parts := strings.Split(nm, ".")
			alive := false
			if len(parts) >= 3 {
				if _, err := os.Stat("/proc/" + parts[len(parts)-1]); err == nil {
					alive = true
				}
			}
			if !alive {
				os.RemoveAll(*flagOut + "/" + nm)
			}
		}
	}
	workdir := fmt.Sprintf("%s/%s.%s.%d", *flagOut, base, *flagTier, os.Getpid())
	os.MkdirAll(workdir, 0755)
	var units []*Unit
	var jobs []job
	tgen := time.Now()
	for _, ct := range cts {
		u := eng.verifyUnit(ct)
		if u == nil {
			continue
		}
		units = append(units, u)
		for _, ob := range u.Obligs {
			if ob.Thorough && *flagTier != "thorough" {
				ob.Status = "skipped"
				continue
			}
			if ob.Goal == TTrue {
				ob.Status = "unsat"
				ob.Solver = "trivial"
				continue
			}
			as, goal, ias, igoal := prepareVC(u.Assumes[:ob.NAssume], ob.Goal)
			s1, _ := BuildScript(as, goal, nil, false)
			s2, _ := BuildScript(as, goal, nil, true)
			f1 := obligFile(workdir, ob.Name)
			f2 := strings.TrimSuffix(f1, ".smt2") + ".cvc5.smt2"
			os.WriteFile(f1, []byte(s1), 0644)
			os.WriteFile(f2, []byte(s2), 0644)
			ob.File = f1
			j := job{u: u, ob: ob, z3file: f1, cvcfile: f2}
			forceSplit := u.Contract.Flags["casesplit"] != ""
			if igoal == nil && forceSplit {
				ias, igoal = as, goal
			}
			if igoal != nil {
				// case split on at most three append outcomes occurring in this VC, then instantiate each case
				var splits []*Term
				if len(u.Splits) > 0 {
					occ := termSet([]*Term{goal})
					for _, sp := range u.Splits {
						rs := resolveDefs(sp)
						for rs.Op == "not" && len(rs.Args) == 1 {
							rs = rs.Args[0]
						}
						if occ[rs] && len(splits) < 5 && !hasBound(rs) {
							dup := false
							for _, x := range splits {
								if x == rs {
									dup = true
								}
							}
							if !dup {
								splits = append(splits, rs)
							}
						}
					}
				}
				// variant 0: no case split; variants 1..2^n: one per combination of the split terms
				{
					i1, _ := BuildScript(ias, igoal, nil, false)
					i2, _ := BuildScript(ias, igoal, nil, true)
					fz := fmt.Sprintf("%s.inst.smt2", strings.TrimSuffix(f1, ".smt2"))
					fc := fmt.Sprintf("%s.inst.cvc5.smt2", strings.TrimSuffix(f1, ".smt2"))
					os.WriteFile(fz, []byte(i1), 0644)
					os.WriteFile(fc, []byte(i2), 0644)
					j.iz3 = append(j.iz3, fz)
					j.icvc = append(j.icvc, fc)
				}
				jp := &j
				f1c, asC, goalC, splitsC := f1, as, goal, splits
				j.genSplits = func(j *job) {
					ncase := 1 << uint(len(splitsC))
					if len(splitsC) == 0 {
						ncase = 0
					}
					for cs := 0; cs < ncase; cs++ {
						sub := map[*Term]*Term{}
						var fix []*Term
						for bi, sp := range splitsC {
							if cs&(1<<uint(bi)) != 0 {
								sub[sp] = TTrue
								fix = append(fix, sp)
							} else {
								sub[sp] = TFalse
								fix = append(fix, Not(sp))
							}
						}
						ras := make([]*Term, 0, len(asC)+len(fix))
						for _, a := range asC {
							ras = append(ras, replaceTerms(a, sub))
						}
						ras = append(ras, fix...)
						rg := replaceTerms(goalC, sub)
						cas, cgoal := prepareVCq(ras, rg)
						if cgoal == nil {
							cas, cgoal = ras, rg
						}
						i1, _ := BuildScript(cas, cgoal, nil, false)
						i2, _ := BuildScript(cas, cgoal, nil, true)
						fz := fmt.Sprintf("%s.inst%d.smt2", strings.TrimSuffix(f1c, ".smt2"), cs)
						fc := fmt.Sprintf("%s.inst%d.cvc5.smt2", strings.TrimSuffix(f1c, ".smt2"), cs)
						os.WriteFile(fz, []byte(i1), 0644)
						os.WriteFile(fc, []byte(i2), 0644)
						j.iz3 = append(j.iz3, fz)
						j.icvc = append(j.icvc, fc)
					}
				}
				_ = jp
			}
			jobs = append(jobs, j)
		}
	}
	if *flagV {
		fmt.Fprintf(os.Stderr, "generated %d obligations for %d units in %.1fs\n", len(jobs), len(units), time.Since(tgen).Seconds())
	}
	seed := 0
	fmt.Sscanf(os.Getenv("VERIF_SEED"), "%d", &seed)
	var wg sync.WaitGroup
	sem := make(chan struct{}, *flagJobs)
	for _, j := range jobs {
		wg.Add(1)
		sem <- struct{}{}
		go func(j job) {
			defer wg.Done()
			defer func() { <-sem }()
			var r SolveResult
			done := false
			timeout := timeout
			if v := j.u.Contract.Flags["timeout"]; v != "" {
				var tv int
				fmt.Sscanf(v, "%d", &tv)
				if tv > timeout {
					timeout = tv
				}
			}
			if strings.HasPrefix(j.ob.Kind, "canary") {
				// a reachability witness either comes quickly or (with quantified assumptions) not at all
				lim := 15
				if *flagTier == "thorough" {
					lim = 60
				}
				if timeout > lim {
					timeout = lim
				}
			}
			if len(j.iz3) > 0 && !strings.HasPrefix(j.ob.Kind, "canary") {
				// a short attempt on the original (quantified) VC first: some goals are immediate for one solver there
				// while their instantiated variants are hard for all of them
				pre := 3
				if *flagTier == "thorough" {
					pre = 20
				}
				if pre < timeout {
					r0 := raceFiles(j.z3file, j.cvcfile, pre, seed, false)
					if r0.Status == "unsat" || r0.Status == "sat" {
						r = r0
						done = true
					}
				}
			}
			if !done && len(j.iz3) > 0 {
				// quantifier-free instantiated variant(s) first; only "unsat" (of every case) is conclusive for them
				it := timeout / 2
				if it < 5 {
					it = 5
				}
				all := true
				var tot float64
				// unsplit variant first; only if it is not conclusive, every split case must be
				r = raceFiles(j.iz3[0], j.icvc[0], it, seed, false)
				tot += r.Time
				if r.Status != "unsat" {
					if j.genSplits != nil {
						genMu.Lock()
						j.genSplits(&j)
						genMu.Unlock()
					}
					if len(j.iz3) == 1 {
						all = false
					}
					// the split cases are independent: solve up to eight at a time, stop at the first that is not unsat
					type caseRes struct {
						r SolveResult
					}
					ncases := len(j.iz3) - 1
					resCh := make(chan caseRes, ncases)
					caseSem := make(chan struct{}, 8)
					var stop int32
					var cwg sync.WaitGroup
					for ci := 1; ci < len(j.iz3); ci++ {
						cwg.Add(1)
						go func(ci int) {
							defer cwg.Done()
							caseSem <- struct{}{}
							defer func() { <-caseSem }()
							if atomic.LoadInt32(&stop) != 0 {
								resCh <- caseRes{SolveResult{Status: "skipped"}}
								return
							}
							cr := raceFiles(j.iz3[ci], j.icvc[ci], it, seed, false)
							if cr.Status != "unsat" {
								atomic.StoreInt32(&stop, 1)
							}
							resCh <- caseRes{cr}
						}(ci)
					}
					cwg.Wait()
					close(resCh)
					var maxT float64
					for cr := range resCh {
						if cr.r.Status != "unsat" {
							all = false
							if cr.r.Status != "skipped" {
								r = cr.r
							}
						} else if all {
							r = cr.r
						}
						if cr.r.Time > maxT {
							maxT = cr.r.Time
						}
					}
					tot += maxT
				}
				if all {
					r.Solver += "+inst"
					r.Time = tot
					done = true
				}
			}
			if !done {
				r = raceFiles(j.z3file, j.cvcfile, timeout, seed, *flagTier == "thorough")
			}
			j.ob.Status = r.Status
			j.ob.Solver = r.Solver
			j.ob.Time = r.Time
			j.ob.Output = r.Output
			if *flagV {
				fmt.Fprintf(os.Stderr, "  %-8s %-10s %6.2fs %s %v\n", r.Status, r.Solver, r.Time, j.ob.Name, r.All)
			}
		}(j)
	}
	wg.Wait()
	return report(eng, units, start, workdir, timeout, seed)
}

// genMu serialises lazy VC generation (the term library is not thread-safe; solver processes run outside it)
var genMu sync.Mutex

func termSet(roots []*Term) map[*Term]bool {
	seen := map[*Term]bool{}
	var rec func(t *Term)
	rec = func(t *Term) {
		if seen[t] {
			return
		}
		seen[t] = true
		if t.Def != nil {
			rec(t.Def)
		}
		for _, a := range t.Args {
			rec(a)
		}
	}
	for _, r := range roots {
		rec(r)
	}
	return seen
}

func dumpSSA(eng *Engine, name string) {
	for _, sp := range eng.pkgs {
		for _, m := range sp.Members {
			if strings.Contains(m.Name(), "vc_") && !strings.Contains(name, "vc_") {
				continue
			}
		}
		for fn := range allFuncs(eng, sp) {
			if strings.Contains(fn.String(), name) {
				fn.WriteTo(os.Stdout)
			}
		}
	}
}
