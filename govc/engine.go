package main

import (
	"encoding/json"
	"os/exec"
	"go/constant"
	"math/big"
	"regexp"
	"strconv"
	"fmt"
	"go/ast"
	"go/token"
	"go/types"
	"os"
	"path/filepath"
	"strings"

	"golang.org/x/tools/go/packages"
	"golang.org/x/tools/go/ssa"
	"golang.org/x/tools/go/ssa/ssautil"
)

type Engine struct {
	repo, mirror string
	fset     *token.FileSet
	prog     *ssa.Program
	pkgs     map[string]*ssa.Package // by dir
	lpkgs    map[string]*packages.Package
	astFiles map[string]*ast.File
	cs       *ContractSet
	finfo    map[*ssa.Function]*FuncInfo
	strLits  map[string]*Term
	strArr   map[string]*Term
	byTarget map[*ssa.Function]*Contract
	targetOf map[*Contract]*ssa.Function
	typeTags map[string]int
	bounds   map[boundKey]*Term
	recSpecs map[*ssa.Function]*Contract
	recFoot  map[*ssa.Function][]footKey
	typeByString map[string]types.Type
	tables   map[string]*Term
	writtenGlobals map[*ssa.Global]bool
	escaped        map[*ssa.Global]bool
	dumped   map[string][]int64
	tableVals map[string][]int64
	maxDepth int
	genSrc   map[string]string
	loadErrs []string
}

func newEngine(repo, mirror string) *Engine {
	return &Engine{repo: repo, mirror: mirror, pkgs: map[string]*ssa.Package{}, lpkgs: map[string]*packages.Package{}, astFiles: map[string]*ast.File{},
		finfo: map[*ssa.Function]*FuncInfo{}, strLits: map[string]*Term{}, strArr: map[string]*Term{}, byTarget: map[*ssa.Function]*Contract{},
		targetOf: map[*Contract]*ssa.Function{}, bounds: map[boundKey]*Term{}, recFoot: map[*ssa.Function][]footKey{}, typeTags: map[string]int{}, typeByString: map[string]types.Type{}, tables: map[string]*Term{}, maxDepth: 8, genSrc: map[string]string{}}
}

var errLineRe = regexp.MustCompile(`^(.*vc_[a-z0-9_]+_verif\.go):(\d+)`)

func (e *Engine) load() error {
	cs, err := parseContracts(e.repo, e.mirror)
	if err != nil {
		return err
	}
	e.cs = cs
	for round := 0; ; round++ {
		err := e.loadOnce()
		if err == nil || round >= 4 {
			return err
		}
		// contracts whose generated code does not type-check against the current source (signature or field
		// changed) are set aside as undecided; everything else is still verified
		disabled := 0
		for _, msg := range e.loadErrs {
			m := errLineRe.FindStringSubmatch(msg)
			if m == nil {
				continue
			}
			line, _ := strconv.Atoi(m[2])
			var best *Contract
			for _, cl := range cs.ByPkg {
				for _, c := range cl {
					if c.Kind != "spec" && c.File == m[1] && c.Line <= line && (best == nil || c.Line > best.Line) {
						best = c
					}
				}
			}
			if best != nil && best.Disabled == "" {
				best.Disabled = msg
				disabled++
			}
		}
		if disabled == 0 {
			return err
		}
		e.loadErrs = nil
		e.pkgs = map[string]*ssa.Package{}
		e.lpkgs = map[string]*packages.Package{}
	}
}

func (e *Engine) loadOnce() error {
	cs := e.cs
	overlay := map[string][]byte{}
	var patterns []string
	for dir := range cs.ByPkg {
		src, err := cs.generate(dir)
		if err != nil {
			return err
		}
		e.genSrc[dir] = src
		overlay[filepath.Join(e.repo, dir, "zz_vc_generated.go")] = []byte(src)
		// when contracts come from the mirror, also overlay the contract files themselves (comment-only)
		patterns = append(patterns, "./"+dir)
	}
	if len(patterns) == 0 {
		return fmt.Errorf("no contract files found")
	}
	cfg := &packages.Config{Mode: packages.LoadAllSyntax, Dir: e.repo, BuildFlags: []string{"-tags=verif"}, Overlay: overlay,
		Env: append(os.Environ(), "GOFLAGS=-mod=readonly", "GOPROXY=off", "GOSUMDB=off", "GOTOOLCHAIN=local")}
	pkgs, err := packages.Load(cfg, patterns...)
	if err != nil {
		return err
	}
	nerr := 0
	packages.Visit(pkgs, nil, func(p *packages.Package) {
		for _, er := range p.Errors {
			e.loadErrs = append(e.loadErrs, er.Error())
			nerr++
		}
	})
	if nerr > 0 {
		return fmt.Errorf("package load/type errors:\n  %s", strings.Join(e.loadErrs, "\n  "))
	}
	prog, spkgs := ssautil.AllPackages(pkgs, ssa.GlobalDebug|ssa.InstantiateGenerics)
	prog.Build()
	e.prog = prog
	e.fset = prog.Fset
	for i, p := range pkgs {
		rel, _ := filepath.Rel(e.repo, filepath.Dir(p.GoFiles[0]))
		e.pkgs[rel] = spkgs[i]
		e.lpkgs[rel] = p
	}
	packages.Visit(pkgs, nil, func(p *packages.Package) {
		for i, f := range p.Syntax {
			if i < len(p.CompiledGoFiles) {
				e.astFiles[p.CompiledGoFiles[i]] = f
			}
		}
	})
	// bind contracts to targets
	for dir, cl := range cs.ByPkg {
		sp := e.pkgs[dir]
		if sp == nil {
			return fmt.Errorf("package %s not loaded", dir)
		}
		for _, c := range cl {
			c.PkgPath = sp.Pkg.Path()
			if c.Kind != "func" || c.Disabled != "" {
				continue
			}
			fn := e.lookupTarget(sp, c)
			if fn == nil {
				continue // reported per unit as target-missing
			}
			if prev := e.byTarget[fn]; prev != nil {
				return fmt.Errorf("two contracts for %s: %s:%d and %s:%d (callers would see only one of them)", fn, prev.File, prev.Line, c.File, c.Line)
			}
			e.byTarget[fn] = c
			e.targetOf[c] = fn
		}
	}
	return nil
}

func (e *Engine) lookupTarget(sp *ssa.Package, c *Contract) *ssa.Function {
	if c.RecvType == "" {
		return sp.Func(c.Name)
	}
	tn := strings.TrimPrefix(c.RecvType, "*")
	obj := sp.Pkg.Scope().Lookup(tn)
	if obj == nil {
		return nil
	}
	var t types.Type = obj.Type()
	if strings.HasPrefix(c.RecvType, "*") {
		t = types.NewPointer(t)
	}
	mname := c.Name[strings.LastIndex(c.Name, ").")+2:]
	sel := e.prog.MethodSets.MethodSet(t).Lookup(sp.Pkg, mname)
	if sel == nil {
		return nil
	}
	return e.prog.MethodValue(sel)
}

func (e *Engine) contractOf(fn *ssa.Function) *Contract {
	if o := fn.Origin(); o != nil {
		fn = o
	}
	return e.byTarget[fn]
}

func (e *Engine) genFunc(c *Contract, suffix string) *ssa.Function {
	if c == nil {
		return nil
	}
	sp := e.pkgs[c.Dir]
	if sp == nil {
		return nil
	}
	return sp.Func(c.GenName + suffix)
}

// boundFor returns the canonical bound variable of a quantifier closure parameter, so that repeated
// evaluations of the same spec expression give identical (hash-consed) quantified terms.
type boundKey struct {
	p    *ssa.Parameter
	mode int
}

func (e *Engine) boundFor(p *ssa.Parameter, s *Sort) *Term {
	k := boundKey{p, floatMode}
	if t, ok := e.bounds[k]; ok {
		return t
	}
	t := BoundVar(p.Name(), s)
	e.bounds[k] = t
	return t
}

func (e *Engine) typeTag(t types.Type) int {
	k := types.TypeString(t, nil)
	if n, ok := e.typeTags[k]; ok {
		return n
	}
	n := len(e.typeTags) + 1
	e.typeTags[k] = n
	e.typeByString[k] = t
	return n
}

// makeLimit: the largest element count a make([]T, n) may be given (allocation limit of DESIGN C15).
func (e *Engine) makeLimit(et types.Type) uint64 { return e.makeLimitFor(et, nil) }

// makeLimitFor: an alloclimit directive states a documented allocation bound of the property it is written under (the
// decoders' maxEncoded* limits); it is an obligation only in units of that property.
func (e *Engine) makeLimitFor(et types.Type, ct *Contract) uint64 {
	k := types.TypeString(et, func(p *types.Package) string { return "" })
	if v, ok := e.cs.AllocLimits[k]; ok {
		props := e.cs.AllocLimitProps[k]
		if ct == nil || len(props) == 0 {
			return v
		}
		for _, p := range props {
			for _, q := range ct.Props {
				if p == q {
					return v
				}
			}
		}
	}
	return maxLen
}

// constTable returns the constant contents of a package-level table, if registered.
func (e *Engine) constTable(g *ssa.Global) *Term {
	k := fmt.Sprintf("%s.%s#%d", g.Pkg.Pkg.Name(), g.Name(), floatMode)
	if t, ok := e.tables[k]; ok {
		return t
	}
	t := e.literalTable(g)
	if t == nil {
		t = e.dumpedTable(g)
	}
	e.tables[k] = t
	return t
}

// dumpedTable: tables computed by the package initialiser (lookupPos, lookupIJ) are read from the running
// program once per run (go run with an overlay that adds a dump function; nothing is written to /repo).
// Trusted: the Go toolchain executes the initialiser; the tables are only written by init-reachable code.
func (e *Engine) dumpedTable(g *ssa.Global) *Term {
	var dir string
	for d, sp := range e.pkgs {
		if sp == g.Pkg {
			dir = d
		}
	}
	want := false
	for _, n := range e.cs.Tables[dir] {
		if n == g.Name() {
			want = true
		}
	}
	if !want {
		return nil
	}
	if !e.onlyInitWrites(g) {
		return nil
	}
	if e.dumped == nil {
		e.dumped = map[string][]int64{}
		e.runDump()
	}
	vals, ok := e.dumped[dir+"."+g.Name()]
	if !ok {
		return nil
	}
	at, ok := g.Type().Underlying().(*types.Pointer).Elem().Underlying().(*types.Array)
	if !ok || !isInteger(at.Elem()) || int(at.Len()) != len(vals) {
		return nil
	}
	es := sortOf(at.Elem())
	ts := make([]*Term, len(vals))
	for i, v := range vals {
		ts[i] = BVLit(uint64(v), es.W)
	}
	return ConstTable(g.Name(), es, ts)
}

// onlyInitWrites: every function storing into g is the package initialiser or is called only from initialisers
// (or recursively from itself), so after initialisation the table is constant.
func (e *Engine) onlyInitWrites(g *ssa.Global) bool {
	writers := map[*ssa.Function]bool{}
	all := ssautil.AllFunctions(e.prog)
	for fn := range all {
		for _, b := range fn.Blocks {
			for _, ins := range b.Instrs {
				st, ok := ins.(*ssa.Store)
				if !ok {
					continue
				}
				addr := st.Addr
				for {
					switch a := addr.(type) {
					case *ssa.IndexAddr:
						addr = a.X
						continue
					case *ssa.FieldAddr:
						addr = a.X
						continue
					}
					break
				}
				if gg, ok := addr.(*ssa.Global); ok && gg == g {
					writers[fn] = true
				}
			}
		}
	}
	isInit := func(fn *ssa.Function) bool { return fn.Name() == "init" || strings.HasPrefix(fn.Name(), "init#") }
	for w := range writers {
		if isInit(w) {
			continue
		}
		for fn := range all {
			for _, b := range fn.Blocks {
				for _, ins := range b.Instrs {
					if call, ok := ins.(ssa.CallInstruction); ok {
						if callee := call.Common().StaticCallee(); callee == w && fn != w && !isInit(fn) {
							return false
						}
					}
					// address-taken function values would escape this check
					if mc, ok := ins.(*ssa.MakeClosure); ok && mc.Fn == w {
						return false
					}
				}
			}
		}
	}
	return true
}

func (e *Engine) runDump() {
	tmp, err := os.MkdirTemp("", "vcdump")
	if err != nil {
		return
	}
	defer os.RemoveAll(tmp)
	ov := map[string]string{}
	var mainSrc strings.Builder
	mainSrc.WriteString("package main\n\nimport (\n\t\"encoding/json\"\n\t\"os\"\n")
	var calls strings.Builder
	n := 0
	for dir, names := range e.cs.Tables {
		sp := e.pkgs[dir]
		if sp == nil || len(names) == 0 {
			continue
		}
		n++
		alias := fmt.Sprintf("p%d", n)
		fmt.Fprintf(&mainSrc, "\t%s %q\n", alias, sp.Pkg.Path())
		var src strings.Builder
		fmt.Fprintf(&src, "package %s\n\nfunc VCDumpTables() map[string][]int64 {\n\tm := map[string][]int64{}\n", sp.Pkg.Name())
		for _, nm := range names {
			fmt.Fprintf(&src, "\tfor _, v := range %s { m[%q] = append(m[%q], int64(v)) }\n", nm, dir+"."+nm, dir+"."+nm)
		}
		src.WriteString("\treturn m\n}\n")
		f := filepath.Join(tmp, fmt.Sprintf("dump%d.go", n))
		os.WriteFile(f, []byte(src.String()), 0644)
		ov[filepath.Join(e.repo, dir, "zz_vc_dump.go")] = f
		fmt.Fprintf(&calls, "\tfor k, v := range %s.VCDumpTables() { all[k] = v }\n", alias)
	}
	if n == 0 {
		return
	}
	mainSrc.WriteString(")\n\nfunc main() {\n\tall := map[string][]int64{}\n")
	mainSrc.WriteString(calls.String())
	mainSrc.WriteString("\tjson.NewEncoder(os.Stdout).Encode(all)\n}\n")
	mf := filepath.Join(tmp, "main.go")
	os.WriteFile(mf, []byte(mainSrc.String()), 0644)
	ov[filepath.Join(e.repo, "zz_vcdump", "main.go")] = mf
	data, _ := json.Marshal(map[string]map[string]string{"Replace": ov})
	ovf := filepath.Join(tmp, "overlay.json")
	os.WriteFile(ovf, data, 0644)
	cmd := exec.Command("go", "run", "-overlay", ovf, "./zz_vcdump")
	cmd.Dir = e.repo
	cmd.Env = append(os.Environ(), "GOFLAGS=-mod=readonly", "GOPROXY=off", "GOSUMDB=off", "GOTOOLCHAIN=local")
	out, err := cmd.Output()
	if err != nil {
		fmt.Fprintf(os.Stderr, "table dump failed: %v\n", err)
		return
	}
	json.Unmarshal(out, &e.dumped)
}

// literalTable: a package-level array variable initialised by a composite literal of constants
// (never assigned elsewhere: checked by globalsWritten per unit and by writtenGlobals program-wide).
func (e *Engine) literalTable(g *ssa.Global) *Term {
	if e.writtenGlobals == nil {
		e.writtenGlobals = map[*ssa.Global]bool{}
		for fn := range ssautil.AllFunctions(e.prog) {
			if fn.Name() == "init" && fn.Synthetic != "" {
				continue // a package initialiser performs the stores of its own package's literals
			}
			for _, b := range fn.Blocks {
				for _, ins := range b.Instrs {
					st, ok := ins.(*ssa.Store)
					if !ok {
						continue
					}
					addr := st.Addr
					for {
						switch a := addr.(type) {
						case *ssa.IndexAddr:
							addr = a.X
							continue
						case *ssa.FieldAddr:
							addr = a.X
							continue
						}
						break
					}
					if gg, ok := addr.(*ssa.Global); ok {
						e.writtenGlobals[gg] = true
					}
				}
			}
		}
	}
	if e.writtenGlobals[g] {
		return nil
	}
	var lp *packages.Package
	for _, p := range e.lpkgs {
		if p.Types == g.Pkg.Pkg {
			lp = p
		}
	}
	if lp == nil {
		return nil
	}
	for _, f := range lp.Syntax {
		for _, d := range f.Decls {
			gd, ok := d.(*ast.GenDecl)
			if !ok || gd.Tok != token.VAR {
				continue
			}
			for _, sp := range gd.Specs {
				vs := sp.(*ast.ValueSpec)
				for i, nm := range vs.Names {
					if nm.Name != g.Name() || i >= len(vs.Values) {
						continue
					}
					cl, ok := vs.Values[i].(*ast.CompositeLit)
					if !ok {
						// a scalar variable with a constant initialiser that is never assigned and whose address is never
						// taken (e.g. s1.dblEpsilon): its value is that constant
						elem := g.Type().Underlying().(*types.Pointer).Elem()
						tv, ok := lp.TypesInfo.Types[vs.Values[i]]
						if !ok || tv.Value == nil || e.globalEscapes(g) {
							return nil
						}
						switch {
						case isInteger(elem):
							bi, _ := new(big.Int).SetString(constant.ToInt(tv.Value).ExactString(), 10)
							return BVLitBig(bi, sortOf(elem).W)
						case isFloat(elem):
							f, _ := constant.Float64Val(tv.Value)
							if _, is32 := elem.Underlying().(*types.Basic); is32 && elem.Underlying().(*types.Basic).Kind() == types.Float32 {
								return nil
							}
							return fpLit(f)
						}
						return nil
					}
					return e.tableFromLit(g.Name(), cl, lp, g.Type().Underlying().(*types.Pointer).Elem())
				}
			}
		}
	}
	return nil
}

func (e *Engine) tableFromLit(name string, cl *ast.CompositeLit, lp *packages.Package, t types.Type) *Term {
	at, ok := t.Underlying().(*types.Array)
	if !ok {
		return nil
	}
	n := int(at.Len())
	if n == 0 || n > 4096 {
		return nil
	}
	vals := make([]*Term, n)
	es := sortOf(at.Elem())
	for i := range vals {
		vals[i] = zeroOfSort(es)
	}
	pos := 0
	for _, el := range cl.Elts {
		ex := el
		if kv, ok := el.(*ast.KeyValueExpr); ok {
			tv, ok := lp.TypesInfo.Types[kv.Key]
			if !ok || tv.Value == nil {
				return nil
			}
			k, _ := constant.Int64Val(tv.Value)
			pos = int(k)
			ex = kv.Value
		}
		if pos >= n {
			return nil
		}
		if sub, ok := ex.(*ast.CompositeLit); ok {
			st := e.tableFromLit(fmt.Sprintf("%s_%d", name, pos), sub, lp, at.Elem())
			if st == nil {
				return nil
			}
			vals[pos] = st
		} else {
			tv, ok := lp.TypesInfo.Types[ex]
			if !ok || tv.Value == nil {
				return nil
			}
			switch {
			case isInteger(at.Elem()):
				bi, _ := new(big.Int).SetString(constant.ToInt(tv.Value).ExactString(), 10)
				vals[pos] = BVLitBig(bi, es.W)
			case isFloat(at.Elem()):
				f, _ := constant.Float64Val(tv.Value)
				vals[pos] = fpLit(f)
			default:
				return nil
			}
		}
		pos++
	}
	return ConstTable(name, es, vals)
}



// ---- verification units ----

type Unit struct {
	Contract *Contract
	Name     string
	Obligs   []*Oblig
	Assumes  []*Term
	Err      string // unsupported / binding error
	Missing  bool
	MissingWhy string
	Notes    []string
	Opaque   map[string]int
	TermUnproved []string
	Inputs   []InputVar
	Assumed  bool
	Ctx      *Ctx
	Splits   []*Term
	Trusted  []string
}

func (e *Engine) newCtx(name string, ct *Contract) *Ctx {
	c := &Ctx{eng: e, unitName: name, contract: ct, nameCount: map[string]int{}, opaque: map[string]int{}, budget: 60000,
		cellSort: map[int]*Sort{}, globalsWritten: map[string]bool{}, ghosts: map[string]Val{}, wfDone: map[*Term]bool{}, aliveDone: map[[2]*Term]bool{}, sliceTerms: map[*Term]bool{}}
	floatMode = 0
	if ct != nil {
		switch {
		case ct.Flags["fp"] != "":
			floatMode = 2
		case ct.Flags["fpcmp"] != "":
			floatMode = 1
		}
	}
	if ct != nil {
		if ct.Flags["inlinecalls"] != "" {
			c.forceInline = true
		}
		if v := ct.Flags["unrollcalls"]; v != "" {
			fmt.Sscanf(v, "%d", &c.defaultUnroll)
		}
	}
	c.alive0 = FreshVar("alive0", SArray(SRef, SBool))
	c.assume(Not(Select(c.alive0, BVLit(0, 64))))
	if ct != nil && ct.Flags["fp"] != "" {
		c.fp = true
	}
	return c
}

func (c *Ctx) ghostVal(name string, t types.Type) (Val, bool) {
	v, ok := c.ghosts[name]
	return v, ok
}

// paramVal creates the symbolic input for a parameter of type t.
func (c *Ctx) paramVal(name string, t types.Type) Val {
	x := FreshVar("in_"+name, sortOf(t))
	c.typeAssume(x, t, TTrue)
	c.aliveAssume(x, t)
	return Val{T: x}
}

// aliveAssume: references held in inputs exist in the pre-state.
func (c *Ctx) aliveAssume(x *Term, t types.Type) {
	switch u := t.Underlying().(type) {
	case *types.Pointer, *types.Map:
		c.assume(Or(Eq(x, BVLit(0, 64)), Select(c.alive0, x)))
		inputRefTerms[x] = true
	case *types.Slice:
		a := DataField_(x, 0)
		c.assume(Or(Eq(a, BVLit(0, 64)), Select(c.alive0, a)))
		inputRefTerms[a] = true
	case *types.Struct:
		if opaqueStruct(t) {
			return
		}
		for i := 0; i < u.NumFields(); i++ {
			if hasPointers(u.Field(i).Type(), 0) {
				c.aliveAssume(DataField_(x, i), u.Field(i).Type())
			}
		}
	}
}

func (e *Engine) verifyUnit(ct *Contract) (u *Unit) {
	name := ct.Pkg + "." + ct.Name
	u = &Unit{Contract: ct, Name: name}
	if ct.Kind == "spec" {
		if ct.Flags["decreases"] != "" && ct.Disabled == "" {
			return e.verifySpecDef(ct, u)
		}
		return nil
	}
	if ct.Disabled != "" {
		u.Missing = true
		u.Err = ""
		u.MissingWhy = "contract does not type-check against the current source: " + ct.Disabled
		return u
	}
	if ct.Flags["assumed"] != "" || ct.Flags["trusted"] != "" {
		u.Assumed = true
		return u
	}
	var target *ssa.Function
	if ct.Kind == "func" {
		target = e.targetOf[ct]
		if target == nil {
			u.Missing = true
			return u
		}
	}
	gen := e.genFunc(ct, "")
	if gen == nil {
		u.Err = "generated contract function not found"
		return u
	}
	c := e.newCtx(name, ct)
	c.target = target
	u.Ctx = c
	defer func() {
		if r := recover(); r != nil {
			switch x := r.(type) {
			case Unsupported:
				u.Err = x.Error()
			case BindError:
				u.Err = "contract binding: " + x.Msg
			default:
				panic(r)
			}
		}
		u.Obligs = c.obligs
		u.Assumes = c.assumes
		u.Notes = c.notes
		u.Opaque = c.opaque
		u.TermUnproved = c.termUnproved
		u.Inputs = c.inputs
		u.Trusted = c.trustedClauses
		u.Splits = append(append([]*Term{}, c.splits...), c.ifSplits...)
	}()
	var args []Val
	for _, p := range gen.Params {
		v := c.paramVal(p.Name(), p.Type())
		args = append(args, v)
		c.inputs = append(c.inputs, InputVar{Name: p.Name(), Type: p.Type(), V: v})
		c.ghosts[p.Name()] = v
	}
	st := &State{m: map[string]*Term{"alive": c.alive0}, epoch: newEpoch("pre", nil)}
	c.pre = st.clone()
	mk := &markerInfo{mode: "verify", target: target, contract: ct}
	if target == nil {
		mk = nil
	}
	sub := &specRun{c: c, onClause: func(kind string, cond *Term, label string, pos token.Pos) {
		switch kind {
		case "requires":
			c.assume(cond)
		case "ensures":
			if strings.HasPrefix(label, "trusted.") {
				// a postcondition that is assumed at call sites but not proved here (listed with the assumptions)
				c.trustedClauses = append(c.trustedClauses, label)
				return
			}
			k := "post"
			if ct.Kind == "lemma" {
				k = "lemma"
			}
			fr := &Frame{ctx: c, curReach: TTrue}
			c.oblige(fr, k, label, cond, pos)
		}
	}}
	_, _, ret := c.runFuncSpec(gen, args, st, TTrue, nil, mk, sub)
	// vacuity canary: the end of the contract function must be reachable under all assumptions
	if ct.Flags["nocanary"] == "" {
		name := c.unitName + "#canary"
		goal := Not(ret)
		if mk != nil && mk.retReach != nil {
			// the function under proof must be able to return (through its loop exits) under all assumptions made
			goal = Not(And(ret, mk.retReach))
		}
		c.obligs = append(c.obligs, &Oblig{Name: name, Kind: "canary", Func: c.unitName, Goal: goal, NAssume: len(c.assumes)})
	}
	return u
}

// verifySpecDef checks that a recursive spec function is well-founded: under the path condition of every nested
// application the declared measure is non-negative and strictly smaller than at entry.
func (e *Engine) verifySpecDef(ct *Contract, u *Unit) *Unit {
	gen := e.genFunc(ct, "")
	mf := e.genFunc(ct, "_vcmeasure")
	if gen == nil || mf == nil {
		u.Err = "generated spec function not found"
		return u
	}
	c := e.newCtx(u.Name, ct)
	u.Ctx = c
	defer func() {
		if r := recover(); r != nil {
			switch x := r.(type) {
			case Unsupported:
				u.Err = x.Error()
			case BindError:
				u.Err = "contract binding: " + x.Msg
			default:
				panic(r)
			}
		}
		u.Obligs = c.obligs
		u.Assumes = c.assumes
		u.Notes = c.notes
		u.Opaque = c.opaque
		u.Inputs = c.inputs
	}()
	var args []Val
	for _, p := range gen.Params {
		v := c.paramVal(p.Name(), p.Type())
		args = append(args, v)
		c.inputs = append(c.inputs, InputVar{Name: p.Name(), Type: p.Type(), V: v})
	}
	st := &State{m: map[string]*Term{"alive": c.alive0}, epoch: newEpoch("pre", nil)}
	c.pre = st.clone()
	measure := func(fr *Frame, a []Val) *Term {
		var parent *Frame = fr
		var cur *State = st
		if fr != nil {
			cur = fr.cur
		}
		reach := TTrue
		if fr != nil {
			reach = fr.abs()
		}
		res, _, _ := c.runFunc(mf, a, nil, cur.clone(), reach, parent, frameOpts{spec: true})
		return res[0].term()
	}
	c.recMeasure0 = measure(nil, args)
	c.recTarget = gen
	c.recMeasure = measure
	// the footprint trial evaluation must not count as the checked evaluation
	c.inUse = map[*ssa.Function]int{gen: 1}
	n0 := len(c.obligs)
	_, _, ret := c.runFunc(gen, args, nil, st, TTrue, nil, frameOpts{spec: true})
	if len(c.obligs) == n0 {
		// no nested application was seen: the definition is not recursive, nothing to check
		c.notes = append(c.notes, "spec function has a decreases clause but no recursive application")
	}
	if ct.Flags["nocanary"] == "" {
		c.obligs = append(c.obligs, &Oblig{Name: c.unitName + "#canary", Kind: "canary", Func: c.unitName, Goal: Not(ret), NAssume: len(c.assumes)})
	}
	return u
}

// globalEscapes: the global is used other than by a direct load or a direct store (its address is passed on).
func (e *Engine) globalEscapes(g *ssa.Global) bool {
	if e.escaped == nil {
		e.escaped = map[*ssa.Global]bool{}
		for fn := range ssautil.AllFunctions(e.prog) {
			for _, b := range fn.Blocks {
				for _, ins := range b.Instrs {
					for _, op := range ins.Operands(nil) {
						gg, ok := (*op).(*ssa.Global)
						if !ok {
							continue
						}
						switch x := ins.(type) {
						case *ssa.UnOp:
							if x.Op == token.MUL {
								continue
							}
						case *ssa.Store:
							if x.Addr == gg && x.Val != ssa.Value(gg) {
								continue
							}
						case *ssa.DebugRef:
							continue
						}
						e.escaped[gg] = true
					}
				}
			}
		}
	}
	return e.escaped[g]
}
