package main

// Values, sorts of Go types, and the component memory model.

import (
	"fmt"
	"go/types"
	"strings"

	"golang.org/x/tools/go/ssa"
)

// ---- sorts of Go types ----

var SSlice = DeclareData("Slice", []DataField{{"sl_arr", SRef}, {"sl_off", SInt}, {"sl_len", SInt}, {"sl_cap", SInt}})
var SIface = DeclareData("Iface", []DataField{{"if_typ", SBV(32)}, {"if_val", SBV(64)}})

const geoModule = "github.com/golang/geo"

var structSorts = map[string]*Sort{}

// floatMode: 0 = float64 values are opaque 64-bit patterns and every float operation is uninterpreted
// (default: structural proofs); 1 = IEEE sort, comparisons exact, arithmetic uninterpreted; 2 = exact IEEE.
var floatMode = 0

func typeKey(t types.Type) string {
	return sanitize(types.TypeString(t, func(p *types.Package) string { return p.Name() }))
}

func isGeoNamed(t types.Type) bool {
	if n, ok := t.(*types.Named); ok {
		if n.Obj().Pkg() == nil {
			return false
		}
		return strings.HasPrefix(n.Obj().Pkg().Path(), geoModule)
	}
	return true // anonymous struct declared in geo code
}

// opaqueStruct: structs from outside the module are opaque 64-bit blobs.
func opaqueStruct(t types.Type) bool {
	if _, ok := t.Underlying().(*types.Struct); !ok {
		return false
	}
	return !isGeoNamed(t)
}

func sortOf(t types.Type) *Sort {
	switch u := t.Underlying().(type) {
	case *types.Basic:
		switch u.Kind() {
		case types.Bool, types.UntypedBool:
			return SBool
		case types.Int8, types.Uint8:
			return SBV(8)
		case types.Int16, types.Uint16:
			return SBV(16)
		case types.Int32, types.Uint32, types.UntypedRune:
			return SBV(32)
		case types.Int, types.Uint, types.Int64, types.Uint64, types.Uintptr, types.UntypedInt:
			return SBV(64)
		case types.Float64, types.UntypedFloat:
			if floatMode == 0 {
				return SBV(64) // opaque bit pattern
			}
			return SFP
		case types.Float32:
			return SFP32
		case types.String, types.UntypedString:
			return SSlice
		case types.UnsafePointer, types.UntypedNil:
			return SRef
		}
		return SBV(64)
	case *types.Pointer:
		return SRef
	case *types.Slice:
		return SSlice
	case *types.Array:
		return SArray(SInt, sortOf(u.Elem()))
	case *types.Struct:
		if opaqueStruct(t) {
			return SBV(64)
		}
		k := typeKey(t)
		if floatMode != 0 {
			k += "_fp"
		}
		if s, ok := structSorts[k]; ok {
			return s
		}
		var fs []DataField
		for i := 0; i < u.NumFields(); i++ {
			fs = append(fs, DataField{Name: fmt.Sprintf("%s..%s", k, sanitize(u.Field(i).Name())), Sort: sortOf(u.Field(i).Type())})
		}
		s := DeclareData("S_"+k, fs)
		structSorts[k] = s
		return s
	case *types.Interface:
		return SIface
	case *types.Map, *types.Chan, *types.Signature:
		return SBV(64)
	case *types.Tuple:
		panic("sortOf tuple")
	}
	return SBV(64)
}

func isSigned(t types.Type) bool {
	if b, ok := t.Underlying().(*types.Basic); ok {
		return b.Info()&types.IsInteger != 0 && b.Info()&types.IsUnsigned == 0
	}
	return false
}
func isInteger(t types.Type) bool {
	if b, ok := t.Underlying().(*types.Basic); ok {
		return b.Info()&types.IsInteger != 0
	}
	return false
}
func isFloat(t types.Type) bool {
	if b, ok := t.Underlying().(*types.Basic); ok {
		return b.Info()&types.IsFloat != 0
	}
	return false
}
func isString(t types.Type) bool {
	if b, ok := t.Underlying().(*types.Basic); ok {
		return b.Info()&types.IsString != 0
	}
	return false
}

// ---- values ----

// Val is the symbolic value of an SSA value.
type Val struct {
	T     *Term    // scalar / datatype / array term
	Tuple []Val    // multi-value
	Ptr   *PtrVal  // symbolic address (when not a plain heap Ref)
	Clo   *Closure // statically known function value
	CloAlts []CloAlt // function value that is one of several known closures
	Dyn   types.Type // for interface values built by MakeInterface: the concrete type
	DynV  *Val       // and the concrete value
}

type CloAlt struct {
	Cond *Term
	Clo  *Closure // nil = nil func
}

type Closure struct {
	Fn       *ssa.Function
	Bindings []Val
	Recv     *Val // bound method receiver
}

// PtrVal is an address: a root plus a path of field / array-index selections.
type PtrVal struct {
	Root RootKind
	Cell int        // RootCell: local cell id
	Ref  *Term      // RootObj: reference to heap object of type Obj (struct or other)
	Obj  types.Type // type of the object the Ref points to (pointee type)
	Glob *ssa.Global
	Arr  *Term // RootElem: backing array ref
	Idx  *Term // RootElem: absolute index
	Elem types.Type
	Path []PathElem
}
type RootKind int

const (
	RootCell RootKind = iota
	RootObj
	RootGlobal
	RootElem
)

type PathElem struct {
	Field int        // >=0: struct field index
	Index *Term      // array index (Field == -1)
	Of    types.Type // type of the aggregate being selected from
}

func (p *PtrVal) extend(e PathElem) *PtrVal {
	q := *p
	q.Path = append(append([]PathElem{}, p.Path...), e)
	return &q
}

// ---- state ----

type Epoch struct {
	id     int
	parent *State // state at loop entry (nil for the function pre-state)
	vars   map[string]*Term
	sorts  map[string]*Sort
	name   string
	firstID int
}

type State struct {
	m     map[string]*Term // heap classes, globals, "cell:<id>"
	epoch *Epoch
}

var epochCounter int

func newEpoch(name string, parent *State) *Epoch {
	epochCounter++
	return &Epoch{id: epochCounter, parent: parent, vars: map[string]*Term{}, sorts: map[string]*Sort{}, name: name, firstID: termCounter}
}

func (s *State) clone() *State {
	m := make(map[string]*Term, len(s.m))
	for k, v := range s.m {
		m[k] = v
	}
	return &State{m: m, epoch: s.epoch}
}

// get returns the current term for key k, creating the epoch variable lazily.
// readTrack, when non-nil, records the state keys read (used to find the heap footprint of a recursive spec function)
var readTrack map[string]*Sort

func (s *State) get(k string, sort *Sort) *Term {
	if readTrack != nil {
		readTrack[k] = sort
	}
	if t, ok := s.m[k]; ok {
		return t
	}
	return s.epoch.get(k, sort)
}

func (e *Epoch) get(k string, sort *Sort) *Term {
	if t, ok := e.vars[k]; ok {
		return t
	}
	t := FreshVar(fmt.Sprintf("%s@%s", k, e.name), sort)
	e.vars[k] = t
	e.sorts[k] = sort
	return t
}

func (s *State) set(k string, t *Term) { s.m[k] = t }

// mergeStates builds the ite-merge of several (cond, state) pairs. conds are assumed exclusive; the last is the default.
func mergeStates(conds []*Term, sts []*State) *State {
	if len(sts) == 1 {
		return sts[0].clone()
	}
	for _, st := range sts[1:] {
		if st.epoch != sts[0].epoch {
			panic("internal: merging states of different epochs")
		}
	}
	res := &State{m: map[string]*Term{}, epoch: sts[0].epoch}
	keys := map[string]bool{}
	for _, st := range sts {
		for k := range st.m {
			keys[k] = true
		}
	}
	for k := range keys {
		var srt *Sort
		for _, st := range sts {
			if t, ok := st.m[k]; ok {
				srt = t.S
				break
			}
		}
		acc := sts[len(sts)-1].get(k, srt)
		for i := len(sts) - 2; i >= 0; i-- {
			acc = Ite(conds[i], sts[i].get(k, srt), acc)
		}
		res.m[k] = acc
	}
	return res
}

func mergeTerms(conds []*Term, ts []*Term) *Term {
	acc := ts[len(ts)-1]
	for i := len(ts) - 2; i >= 0; i-- {
		acc = Ite(conds[i], ts[i], acc)
	}
	return acc
}

// ---- class keys ----

func fieldKey(st types.Type, i int) string {
	u := st.Underlying().(*types.Struct)
	return "f:" + typeKey(st) + "." + u.Field(i).Name()
}
func cellKey(t types.Type) string  { return "c:" + typeKey(t) }
func elemKey(t types.Type) string  { return "e:" + sortOf(t).String() + ":" + typeKey(t) }
func globalKey(g *ssa.Global) string { return "g:" + g.Pkg.Pkg.Name() + "." + g.Name() }
func localKey(id int) string       { return fmt.Sprintf("cell:%d", id) }
