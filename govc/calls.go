package main

// Calls: contracts, inlining, builtins, standard-library models, opaque havoc.

import (
	"os"
	"sort"
	"fmt"
	"go/constant"
	"go/token"
	"go/types"
	"strings"

	"golang.org/x/tools/go/ssa"
)

func (fr *Frame) call(x *ssa.Call, cc *ssa.CallCommon, pos token.Pos) {
	res := fr.doCall(cc, pos, x.Type())
	fr.vals[x] = res
}

func (fr *Frame) doCall(cc *ssa.CallCommon, pos token.Pos, resType types.Type) Val {
	c := fr.ctx
	var args []Val
	for _, a := range cc.Args {
		args = append(args, fr.value(a))
	}
	if cc.IsInvoke() {
		recv := fr.value(cc.Value)
		// devirtualise when the dynamic type is statically known
		if recv.Dyn != nil && recv.DynV != nil {
			ms := c.eng.prog.MethodSets.MethodSet(recv.Dyn)
			sel := ms.Lookup(cc.Method.Pkg(), cc.Method.Name())
			if sel != nil {
				if fn := c.eng.prog.MethodValue(sel); fn != nil {
					return fr.callStatic(fn, append([]Val{*recv.DynV}, args...), nil, pos, resType)
				}
			}
		}
		return fr.invoke(cc, recv, args, pos, resType)
	}
	switch callee := cc.Value.(type) {
	case *ssa.Builtin:
		return fr.builtin(callee, cc, args, pos, resType)
	case *ssa.Function:
		return fr.callStatic(callee, args, nil, pos, resType)
	case *ssa.MakeClosure:
		clo := fr.value(callee).Clo
		return fr.callStatic(clo.Fn, args, clo.Bindings, pos, resType)
	default:
		v := fr.value(cc.Value)
		if v.CloAlts != nil {
			return fr.callAlts(v.CloAlts, args, pos, resType)
		}
		if v.Clo != nil {
			if v.Clo.Recv != nil {
				return fr.callStatic(v.Clo.Fn, append([]Val{*v.Clo.Recv}, args...), v.Clo.Bindings, pos, resType)
			}
			return fr.callStatic(v.Clo.Fn, args, v.Clo.Bindings, pos, resType)
		}
		c.opaque["dynamic-call"]++
		return fr.opaqueResult("dyncall", resType, nil, true, nil)
	}
}

// callAlts calls a function value that is one of several statically known closures: each alternative is
// executed under its condition and the results and states are merged.
func (fr *Frame) callAlts(alts []CloAlt, args []Val, pos token.Pos, resType types.Type) Val {
	c := fr.ctx
	base := fr.cur
	baseReach := fr.curReach
	var conds []*Term
	var sts []*State
	var vals []Val
	var reaches []*Term
	var nilCond []*Term
	for _, a := range alts {
		if a.Clo == nil {
			nilCond = append(nilCond, a.Cond)
			continue
		}
		fr.cur = base.clone()
		fr.curReach = And(baseReach, a.Cond)
		var v Val
		if a.Clo.Recv != nil {
			v = fr.callStatic(a.Clo.Fn, append([]Val{*a.Clo.Recv}, args...), a.Clo.Bindings, pos, resType)
		} else {
			v = fr.callStatic(a.Clo.Fn, args, a.Clo.Bindings, pos, resType)
		}
		conds = append(conds, a.Cond)
		sts = append(sts, fr.cur)
		vals = append(vals, v)
		reaches = append(reaches, fr.curReach)
	}
	fr.curReach = baseReach
	if len(nilCond) > 0 {
		c.oblige(fr, "nil", "call of nil func", Not(Or(nilCond...)), pos)
	}
	if len(conds) == 0 {
		fr.cur = base
		return fr.opaqueResult("nilcall", resType, nil, true, nil)
	}
	fr.cur = mergeStates(conds, sts)
	fr.curReach = Or(reaches...)
	if _, isTup := resType.(*types.Tuple); isTup && resType.(*types.Tuple).Len() == 0 {
		return Val{}
	}
	return mergeVals(conds, vals)
}

func tupleOrSingle(res []Val, resType types.Type) Val {
	if tup, ok := resType.(*types.Tuple); ok {
		if tup.Len() == 0 {
			return Val{}
		}
		return Val{Tuple: res}
	}
	if len(res) == 0 {
		return Val{}
	}
	return res[0]
}

func (fr *Frame) invoke(cc *ssa.CallCommon, recv Val, args []Val, pos token.Pos, resType types.Type) Val {
	c := fr.ctx
	if v, ok := fr.ioInvoke(cc, recv, args, pos, resType); ok {
		return v
	}
	// a function value handed to an unknown method may be called by it: whatever the closure captured by reference
	// (local variables, and the maps they hold) is unknown afterwards
	for _, a := range args {
		if a.Clo == nil {
			continue
		}
		for _, b := range a.Clo.Bindings {
			if b.Ptr != nil && b.Ptr.Root == RootCell && len(b.Ptr.Path) == 0 {
				k := localKey(b.Ptr.Cell)
				srt := c.cellSort[b.Ptr.Cell]
				if mt, ok := b.Ptr.Obj.Underlying().(*types.Map); ok {
					if cur, ok2 := fr.cur.m[k]; ok2 {
						fr.havocMap(mt, cur)
					}
					continue
				}
				if srt != nil {
					nv := FreshVar("captured_havoc", srt)
					c.typeAssume(nv, b.Ptr.Obj, fr.curReach)
					fr.cur.set(k, nv)
				}
			}
		}
	}
	name := fmt.Sprintf("invoke.%s.%s", typeKey(cc.Value.Type()), cc.Method.Name())
	// error.Error() etc are irrelevant; interface methods are assumed pure and state-independent (listed assumption)
	c.opaque["interface-method:"+cc.Method.Name()]++
	fr.ctx.oblige(fr, "nil", "interface receiver of "+cc.Method.Name(), Not(Eq(DataField_(recv.term(), 0), BVLit(0, 32))), pos)
	var ts []*Term
	ts = append(ts, recv.term())
	okArgs := true
	for _, a := range args {
		if t := a.term(); t != nil {
			ts = append(ts, t)
		} else {
			okArgs = false
		}
	}
	var res Val
	if !okArgs {
		res = fr.opaqueResult(name, resType, nil, false, nil)
	} else {
		res = fr.opaqueResult(name, resType, ts, false, nil)
	}
	// flag ifacenonnil: interface values returned by interface methods are not nil (e.g. the distance values a
	// distanceTarget hands out); an assumption of the unit, listed in its notes
	if c.contract != nil && c.contract.Flags["ifacenonnil"] != "" && res.T != nil {
		if _, isIface := resType.Underlying().(*types.Interface); isIface {
			c.assume(Not(Eq(DataField_(res.T, 0), BVLit(0, 32))))
			c.note("flag ifacenonnil: interface values returned by interface methods are assumed non-nil")
		}
	}
	return res
}

// opaqueResult: deterministic (UF of args) when ts != nil, else fresh.
func (fr *Frame) opaqueResult(name string, resType types.Type, ts []*Term, fresh bool, _ interface{}) Val {
	mk := func(t types.Type, i int) Val {
		s := sortOf(t)
		var r *Term
		if ts != nil && !fresh {
			r = UFApp(fmt.Sprintf("%s.%d", name, i), s, ts...)
		} else {
			r = FreshVar(name, s)
		}
		fr.ctx.typeAssume(r, t, fr.curReach)
		return Val{T: r}
	}
	if tup, ok := resType.(*types.Tuple); ok {
		if tup.Len() == 0 {
			return Val{}
		}
		v := Val{Tuple: make([]Val, tup.Len())}
		for i := 0; i < tup.Len(); i++ {
			v.Tuple[i] = mk(tup.At(i).Type(), i)
		}
		return v
	}
	return mk(resType, 0)
}

func (c *Ctx) onStack(fn *ssa.Function) bool {
	for _, f := range c.stack {
		if f == fn {
			return true
		}
	}
	return false
}

func fullName(fn *ssa.Function) string {
	if fn.Pkg != nil && fn.Signature.Recv() == nil {
		return fn.Pkg.Pkg.Path() + "." + fn.Name()
	}
	return fn.String()
}

func (fr *Frame) callStatic(fn *ssa.Function, args []Val, bindings []Val, pos token.Pos, resType types.Type) Val {
	c := fr.ctx
	// generic instantiations: use origin's name for models
	name := fullName(fn)
	if o := fn.Origin(); o != nil {
		name = fullName(o)
	}
	// marker call inside a contract function
	if fr.marker != nil && !fr.marker.done && fn == fr.marker.target {
		return fr.markerCall(fn, args, pos, resType)
	}
	if v, ok := fr.specHelper(name, fn, args, pos, resType); ok {
		return v
	}
	if v, ok := fr.stdModel(name, fn, args, pos, resType); ok {
		return v
	}
	if ct := c.eng.recSpecOf(fn); ct != nil {
		return fr.recSpecCall(fn, ct, args, pos, resType)
	}
	// contract? (in spec mode a loop-free body is its own strongest postcondition: inline it)
	if ct := c.eng.contractOf(fn); ct != nil && ct.Flags["inline"] == "" && !(c.forceInline && ct.Flags["assumed"] == "" && len(fn.Blocks) > 0) {
		loopFree := len(fn.Blocks) > 0 && len(c.eng.funcInfo(fn).loops) == 0
		if !((fr.spec || fr.inQuant) && loopFree && ct.Flags["opaque"] == "" && ct.Flags["assumed"] == "" && ct.Flags["pure"] == "" && !c.onStack(fn) && fr.depth < c.eng.maxDepth) {
			return fr.useContract(fn, ct, args, pos, resType)
		}
	}
	inGeo := fn.Pkg != nil && strings.HasPrefix(fn.Pkg.Pkg.Path(), geoModule)
	isAnon := fn.Parent() != nil || fn.Synthetic != ""
	if (inGeo || isAnon) && len(fn.Blocks) > 0 && !c.onStack(fn) && fr.depth < c.eng.maxDepth && c.budget > 0 {
		ct := c.eng.contractOf(fn)
		res, st, ret := c.runFunc(fn, args, bindings, fr.cur, fr.abs(), fr, frameOpts{prefix: shortName(fn), contract: ct})
		fr.cur = st
		// a callee that does not return on some paths (panics) restricts reachability afterwards; the panic itself was an obligation
		if !fr.spec {
			fr.curReach = And(fr.curReach, ret)
			if ret != fr.curReach {
				fr.curReach = simplifyReach(fr.curReach, ret)
			}
		}
		return tupleOrSingle(res, resType)
	}
	// opaque
	return fr.opaqueCall(fn, name, args, resType)
}

func simplifyReach(a, b *Term) *Term { return a }

func shortName(fn *ssa.Function) string {
	n := fn.Name()
	if r := fn.Signature.Recv(); r != nil {
		t := r.Type()
		if p, ok := t.(*types.Pointer); ok {
			t = p.Elem()
		}
		if nm, ok := t.(*types.Named); ok {
			return nm.Obj().Name() + "." + n
		}
	}
	return n
}

func hasPointers(t types.Type, depth int) bool {
	if depth > 5 {
		return true
	}
	switch u := t.Underlying().(type) {
	case *types.Pointer, *types.Slice, *types.Map, *types.Chan, *types.Interface, *types.Signature:
		return true
	case *types.Struct:
		for i := 0; i < u.NumFields(); i++ {
			if hasPointers(u.Field(i).Type(), depth+1) {
				return true
			}
		}
	case *types.Array:
		return hasPointers(u.Elem(), depth+1)
	}
	return false
}

func (fr *Frame) opaqueCall(fn *ssa.Function, name string, args []Val, resType types.Type) Val {
	c := fr.ctx
	c.opaque[name]++
	pure := true
	var ts []*Term
	for i, a := range args {
		var pt types.Type
		if i < len(fn.Params) {
			pt = fn.Params[i].Type()
		} else if i < fn.Signature.Params().Len() {
			pt = fn.Signature.Params().At(i).Type()
		}
		if pt != nil && hasPointers(pt, 0) {
			if _, isStr := pt.Underlying().(*types.Basic); !isStr {
				pure = false
			}
		}
		if t := a.term(); t != nil {
			ts = append(ts, t)
		} else {
			ts = nil
			pure = false
			break
		}
	}
	if !pure {
		fr.havocReachable(fn, args)
		return fr.opaqueResult(sanitize(name), resType, nil, true, nil)
	}
	return fr.opaqueResult(sanitize(name), resType, ts, false, nil)
}

// havocReachable: an unknown callee with pointer arguments may write anything reachable from them.
// Sound over-approximation: havoc every heap class (fields, cells, elements); locals whose address is passed.
func (fr *Frame) havocReachable(fn *ssa.Function, args []Val) {
	c := fr.ctx
	c.note("opaque call with pointer arguments havocs the heap: " + fullName(fn) + " in " + fr.fn.String())
	ep := newEpoch("after_"+sanitize(fn.Name()), nil)
	ns := &State{m: map[string]*Term{}, epoch: ep}
	for k, v := range fr.cur.m {
		if strings.HasPrefix(k, "cell:") || strings.HasPrefix(k, "ghost:") || strings.HasPrefix(k, "lock:") {
			ns.m[k] = v
		}
	}
	// objects stay allocated; the callee may allocate more
	oldAlive := fr.cur.get("alive", SArray(SRef, SBool))
	newAlive := FreshVar("alive_after_"+sanitize(fn.Name()), SArray(SRef, SBool))
	qa := BoundVar("r", SRef)
	c.assume(Forall([]*Term{qa}, Implies(Select(oldAlive, qa), Select(newAlive, qa))))
	ns.m["alive"] = newAlive
	// keys not yet materialised in the old epoch also become fresh (new epoch has no parent link)
	// locals passed by address are havocked too
	for _, a := range args {
		if a.Ptr != nil && a.Ptr.Root == RootCell {
			k := localKey(a.Ptr.Cell)
			ns.m[k] = FreshVar("cellhavoc", c.cellSort[a.Ptr.Cell])
		}
	}
	// constant tables remain constant (globalRead consults them first when not written)
	fr.cur = ns
}

// ---- contracts at call sites ----

func (fr *Frame) useContract(fn *ssa.Function, ct *Contract, args []Val, pos token.Pos, resType types.Type) Val {
	c := fr.ctx
	gen := c.eng.genFunc(ct, "")
	if gen == nil {
		unsupported("generated contract function missing for %s", ct.Name)
	}
	// a pure contract whose clauses mention the function itself (algebraic laws such as f(a,b) == f(b,a)):
	// the nested application is the bare uninterpreted value, its own laws are not unfolded again
	if c.inUse == nil {
		c.inUse = map[*ssa.Function]int{}
	}
	if c.inUse[fn] > 0 && ct.Flags["pure"] != "" && ct.Flags["readsheap"] == "" && len(ct.Modifies) == 0 {
		var ts []*Term
		ok := true
		for _, a := range args {
			if t := a.term(); t != nil {
				ts = append(ts, t)
			} else {
				ok = false
			}
		}
		if ok {
			var res []Val
			for i := 0; i < fn.Signature.Results().Len(); i++ {
				rt := fn.Signature.Results().At(i).Type()
				v := Val{T: UFApp(fmt.Sprintf("fn.%s.%d", sanitize(fullName(fn)), i), sortOf(rt), ts...)}
				c.typeAssume(v.T, rt, fr.curReach)
				res = append(res, v)
			}
			return tupleOrSingle(res, resType)
		}
	}
	c.inUse[fn]++
	defer func() { c.inUse[fn]-- }()
	mk := &markerInfo{mode: "use", target: fn, contract: ct, callerFrame: fr, callPos: pos}
	nAssumeBefore, reachBefore := len(c.assumes), fr.abs()
	// A callee contract holds for every value of its ghost parameters, so any instantiation is sound at a call site
	// (the callee's requires over the ghost becomes an obligation like any other). A ghost of the same name and type in
	// the unit under proof is used (a probe point is handed down the call chain); otherwise a fresh value.
	full := append([]Val{}, args...)
	for i := len(args); i < len(gen.Params); i++ {
		gp := gen.Params[i]
		if v, ok := c.ghosts[gp.Name()]; ok && i >= len(fn.Params) && v.T != nil && v.T.S.String() == sortOf(gp.Type()).String() && isGhostOf(ct, gp.Name()) && c.contract != nil && isGhostOf(c.contract, gp.Name()) {
			full = append(full, v)
			continue
		}
		full = append(full, Val{T: FreshVar("ghost_"+gp.Name(), sortOf(gp.Type()))})
	}
	callee := shortName(fn)
	st := fr.cur
	sub := &specRun{c: c, caller: fr, onClause: func(kind string, cond *Term, label string, p token.Pos) {
		switch kind {
		case "requires":
			if !fr.spec && !fr.inQuant {
				c.oblige(fr, "pre", callee+"["+label+"]", cond, pos)
			}
		case "ensures":
			if !fr.inQuant {
				c.assume(Implies(fr.abs(), cond))
			}
		}
	}}
	preState := fr.cur
	_, post, _ := c.runFuncSpec(gen, full, st, fr.abs(), fr, mk, sub)
	fr.cur = post
	fr.recordStreamRead(fn, ct, args, mk, preState)
	if !fr.spec && !fr.inQuant && c.siteCanaries < 40 && (c.contract == nil || c.contract.Flags["nocanary"] == "") {
		// thorough tier: a call site that is reachable before the call must still be reachable after it under everything
		// assumed from the callee's contract (postconditions that contradict what is known would make the rest of the
		// path vacuously provable). Checked as a pair: "before" satisfiable and "after" unsatisfiable = VACUOUS.
		c.siteCanaries++
		c.nameCount["site-canary"]++
		n := c.nameCount["site-canary"]
		c.obligs = append(c.obligs, &Oblig{Name: fmt.Sprintf("%s#canary-before(%s)#%d", c.unitName, callee, n), Kind: "canary-before", Func: c.unitName,
			Goal: Not(reachBefore), NAssume: nAssumeBefore, Thorough: true})
		c.obligs = append(c.obligs, &Oblig{Name: fmt.Sprintf("%s#canary-after(%s)#%d", c.unitName, callee, n), Kind: "canary-after", Func: c.unitName,
			Goal: Not(fr.abs()), NAssume: len(c.assumes), Thorough: true})
	}
	return tupleOrSingle(mk.results, resType)
}

type specRun struct {
	c        *Ctx
	caller   *Frame
	onClause func(kind string, cond *Term, label string, pos token.Pos)
	reqN     int
}

// runFuncSpec runs a generated contract/loop function. Its own instructions are evaluated in spec mode
// (no panic obligations); vcRequires / vcEnsures / vcInvariant calls are reported through sub.onClause.
func (c *Ctx) runFuncSpec(gen *ssa.Function, args []Val, st *State, reach *Term, parent *Frame, mk *markerInfo, sub *specRun) ([]Val, *State, *Term) {
	saved := c.curSpec
	savedMk := c.curMk
	c.curSpec = sub
	if mk != nil {
		c.curMk = mk
	}
	defer func() { c.curSpec = saved; c.curMk = savedMk }()
	return c.runFunc(gen, args, nil, st, reach, parent, frameOpts{spec: true, marker: mk})
}

func (c *Ctx) runSpecFunc(gen *ssa.Function, args []Val, st *State, reach *Term, parent *Frame, on func(kind string, cond *Term, label string, pos token.Pos)) {
	sub := &specRun{c: c, caller: parent, onClause: on}
	// loop-spec functions never modify state; run on a clone
	c.runFuncSpec(gen, args, st.clone(), reach, parent, nil, sub)
}

// markerCall handles the unique call to the target inside a generated contract function.
func (fr *Frame) markerCall(fn *ssa.Function, args []Val, pos token.Pos, resType types.Type) Val {
	c := fr.ctx
	mk := fr.marker
	mk.done = true
	mk.pre = fr.cur.clone()
	switch mk.mode {
	case "verify":
		res, st, ret := c.runFunc(fn, args, nil, fr.cur, fr.abs(), fr, frameOpts{real: true, contract: mk.contract})
		mk.retReach = ret
		fr.cur = st
		fr.curReach = And(fr.curReach, ret)
		fr.baseReach = And(fr.baseReach, ret)
		mk.results = res
		if mk.contract.Flags["noframe"] == "" {
			c.frameCheck(fr, mk, args, pos)
		}
		return tupleOrSingle(res, resType)
	case "use":
		// a callee that promises freshly allocated objects (vcFresh in its postconditions) has allocated: pointers read
		// after the call are nil or alive in a LARGER set than before the call. (Without this, the "alive before the
		// call" assumption made when such a pointer is loaded contradicts its freshness and everything after the call
		// becomes vacuously provable.)
		if contractMentions(mk.contract, "vcFresh") && os.Getenv("VC_NOALIVEFIX") == "" {
			oldAlive := fr.cur.get("alive", SArray(SRef, SBool))
			newAlive := FreshVar("alive_after_"+sanitize(fn.Name()), SArray(SRef, SBool))
			qa := BoundVar("r", SRef)
			c.assume(Forall([]*Term{qa}, Implies(Select(oldAlive, qa), Select(newAlive, qa))))
			fr.cur.set("alive", newAlive)
		}
		// havoc what the contract allows to change
		fr.applyModifies(mk, args)
		// ghost event flags can only be raised by the callee
		if strings.Contains(strings.Join(mk.contract.Modifies, ","), ".err") {
			for _, gk := range []string{"ghost:readFailed", "ghost:errRaised", "ghost:shortRead"} {
				fr.cur.set(gk, Or(fr.cur.get(gk, SBool), FreshVar("raised", SBool)))
			}
		}
		var res []Val
		n := fn.Signature.Results().Len()
		det := mk.contract.Flags["pure"] != "" || mk.contract.Flags["deterministic"] != ""
		var ts []*Term
		if det {
			for _, a := range args {
				if t := a.term(); t != nil {
					ts = append(ts, t)
				} else {
					det = false
				}
			}
			if mk.contract.Flags["readsheap"] != "" {
				det = false
			}
		}
		for i := 0; i < n; i++ {
			rt := fn.Signature.Results().At(i).Type()
			var v Val
			if det {
				v = Val{T: UFApp(fmt.Sprintf("fn.%s.%d", sanitize(fullName(fn)), i), sortOf(rt), ts...)}
				c.typeAssume(v.T, rt, fr.curReach)
				if v.T.S.K == KBool && c.contract != nil && c.contract.Flags["casesplit"] != "" && !hasBound(v.T) {
					c.splits = append(c.splits, v.T)
				}
			} else {
				v = fr.havocVal(rt, "ret_"+fn.Name())
			}
			if v.T != nil && hasPointers(rt, 0) {
				fr.markAlive(v.T, rt)
			}
			res = append(res, v)
		}
		mk.results = res
		return tupleOrSingle(res, resType)
	}
	panic("markerCall mode")
}

// applyModifies havocs the locations named by the contract's modifies clause.
func (fr *Frame) applyModifies(mk *markerInfo, args []Val) {
	c := fr.ctx
	ct := mk.contract
	if len(ct.Modifies) == 0 {
		return
	}
	gen := c.eng.genFunc(ct, "_modifies")
	if gen == nil {
		return
	}
	full := append([]Val{}, args...)
	for i := len(args); i < len(gen.Params); i++ {
		full = append(full, Val{T: FreshVar("ghost", sortOf(gen.Params[i].Type()))})
	}
	targets := c.modTargets(gen, full, fr.cur, fr.abs(), fr)
	for _, t := range targets {
		fr.havocTarget(t)
	}
}

type modTarget struct {
	kind string // "loc", "elems", "obj"
	ptr  *PtrVal
	typ  types.Type
	sl   *Term
	elem types.Type
}

func (c *Ctx) modTargets(gen *ssa.Function, args []Val, st *State, reach *Term, parent *Frame) []modTarget {
	var out []modTarget
	saved := c.modSink
	c.modSink = &out
	defer func() { c.modSink = saved }()
	c.runFunc(gen, args, nil, st.clone(), reach, parent, frameOpts{spec: true})
	return out
}

func (fr *Frame) havocTarget(t modTarget) {
	switch t.kind {
	case "loc":
		v := fr.havocVal(t.typ, "mod")
		fr.store(Val{Ptr: t.ptr}, t.typ, v.T, token.NoPos, false)
	case "elems":
		elemHavocInners(fr.cur, elemKey(t.elem), sortOf(t.elem), DataField_(t.sl, 0), "modelems")
	case "map":
		fr.havocMap(t.typ.Underlying().(*types.Map), t.sl)
	case "obj":
		u, ok := t.typ.Underlying().(*types.Struct)
		if !ok {
			v := fr.havocVal(t.typ, "mod")
			fr.store(Val{Ptr: t.ptr}, t.typ, v.T, token.NoPos, false)
			return
		}
		for i := 0; i < u.NumFields(); i++ {
			ft := u.Field(i).Type()
			v := fr.havocVal(ft, "mod_"+u.Field(i).Name())
			fr.store(Val{Ptr: t.ptr.extend(PathElem{Field: i, Of: t.typ})}, ft, v.T, token.NoPos, false)
		}
	}
}

// frameCheck: everything not named in modifies is unchanged for objects that existed before the call.
func (c *Ctx) frameCheck(fr *Frame, mk *markerInfo, args []Val, pos token.Pos) {
	ct := mk.contract
	pre := mk.pre
	post := fr.cur
	var targets []modTarget
	if len(ct.Modifies) > 0 {
		if gen := c.eng.genFunc(ct, "_modifies"); gen != nil {
			full := append([]Val{}, args...)
			for i := len(args); i < len(gen.Params); i++ {
				g, _ := c.ghostVal(gen.Params[i].Name(), gen.Params[i].Type())
				full = append(full, g)
			}
			targets = c.modTargets(gen, full, pre, TTrue, fr)
		}
	}
	var keys []string
	for k := range post.m {
		keys = append(keys, k)
	}
	sortStrings(keys)
	for _, k := range keys {
		pt := post.m[k]
		if strings.HasPrefix(k, "cell:") {
			continue
		}
		bt := pre.get(k, pt.S)
		if bt == pt {
			continue
		}
		switch {
		case strings.HasPrefix(k, "g:"):
			allowed := false
			for _, t := range targets {
				if t.ptr != nil && t.ptr.Root == RootGlobal && globalKey(t.ptr.Glob) == k {
					allowed = true
				}
			}
			if !allowed {
				c.oblige(fr, "frame", k, Eq(pt, bt), pos)
			}
		case strings.HasPrefix(k, "f:") || strings.HasPrefix(k, "c:"):
			r := FreshVar("frame_r", SRef)
			var excl []*Term
			whole := false
			for _, t := range targets {
				if t.ptr == nil || t.ptr.Root != RootObj {
					continue
				}
				switch t.kind {
				case "loc":
					var tk string
					if _, ok := t.ptr.Obj.Underlying().(*types.Struct); ok && !opaqueStruct(t.ptr.Obj) && len(t.ptr.Path) > 0 {
						tk = fieldKey(t.ptr.Obj, t.ptr.Path[0].Field)
					} else {
						tk = cellKey(t.ptr.Obj)
					}
					if tk == baseKey(k) {
						excl = append(excl, Eq(r, t.ptr.Ref))
					}
				case "obj":
					if u, ok := t.typ.Underlying().(*types.Struct); ok {
						for i := 0; i < u.NumFields(); i++ {
							if fieldKey(t.typ, i) == baseKey(k) {
								excl = append(excl, Eq(r, t.ptr.Ref))
							}
						}
					} else if cellKey(t.typ) == baseKey(k) {
						excl = append(excl, Eq(r, t.ptr.Ref))
					}
				}
			}
			if whole {
				continue
			}
			cond := Implies(And(Select(c.alive0, r), Not(Or(excl...))), Eq(Select(pt, r), Select(bt, r)))
			c.oblige(fr, "frame", k, cond, pos)
		case strings.HasPrefix(k, "e:"):
			r := FreshVar("frame_arr", SRef)
			ix := FreshVar("frame_idx", SInt)
			var excl []*Term
			for _, t := range targets {
				if t.kind == "elems" && elemKey(t.elem) == baseKey(k) {
					excl = append(excl, Eq(r, DataField_(t.sl, 0)))
				}
				if t.kind == "loc" && t.ptr != nil && t.ptr.Root == RootElem && elemKey(t.ptr.Elem) == baseKey(k) {
					excl = append(excl, And(Eq(r, t.ptr.Arr), Eq(ix, t.ptr.Idx)))
				}
			}
			cond := Implies(And(Select(c.alive0, r), Not(Or(excl...))), Eq(Select(Select(pt, r), ix), Select(Select(bt, r), ix)))
			c.oblige(fr, "frame", k, cond, pos)
		}
	}
}

func sortStrings(s []string) {
	for i := 1; i < len(s); i++ {
		for j := i; j > 0 && s[j] < s[j-1]; j-- {
			s[j], s[j-1] = s[j-1], s[j]
		}
	}
}

// ---- spec helpers (vcRequires etc) ----

func (fr *Frame) specHelper(name string, fn *ssa.Function, args []Val, pos token.Pos, resType types.Type) (Val, bool) {
	c := fr.ctx
	base := fn.Name()
	if o := fn.Origin(); o != nil {
		base = o.Name()
	}
	if !strings.HasPrefix(base, "vc") {
		return Val{}, false
	}
	strArg := func(i int) string {
		// labels are string constants: recover from the literal table
		t := args[i].T
		for s, lt := range c.eng.strLits {
			if lt == t {
				return s
			}
		}
		return ""
	}
	clause := func(kind string, cond *Term, label string) {
		if c.curSpec != nil && c.curSpec.onClause != nil {
			c.curSpec.onClause(kind, Implies(fr.baseReach, cond), label, pos)
		}
	}
	switch base {
	case "vcRequires":
		lab := ""
		if c.curSpec != nil {
			c.curSpec.reqN++
			lab = fmt.Sprintf("%d", c.curSpec.reqN)
		}
		clause("requires", args[0].T, lab)
		return Val{}, true
	case "vcEnsures":
		clause("ensures", args[0].T, strArg(1))
		return Val{}, true
	case "vcInvariant":
		clause("invariant", args[0].T, strArg(1))
		return Val{}, true
	case "vcDecreases":
		if c.curSpec != nil && c.curSpec.onClause != nil {
			c.curSpec.onClause("decreases", args[0].T, "", pos)
		}
		return Val{}, true
	case "vcForall", "vcExists":
		clo := args[0].Clo
		if clo == nil {
			unsupported("quantifier over dynamic function")
		}
		pt := clo.Fn.Params[0].Type()
		q := c.eng.boundFor(clo.Fn.Params[0], sortOf(pt))
		res, _, _ := c.runFunc(clo.Fn, []Val{{T: q}}, clo.Bindings, fr.cur.clone(), TTrue, fr, frameOpts{spec: true, inQuant: true})
		body := res[0].T
		if base == "vcForall" {
			return Val{T: Forall([]*Term{q}, body)}, true
		}
		return Val{T: Exists([]*Term{q}, body)}, true
	case "vcAllocated":
		// the slice's backing array exists now (or the slice is nil): it cannot be an array allocated later
		arr := DataField_(args[0].T, 0)
		alive := fr.cur.get("alive", SArray(SRef, SBool))
		return Val{T: Or(Eq(arr, BVLit(0, 64)), Select(alive, arr))}, true
	case "vcPreElem":
		// element k of slice s as it was in the pre-state of the function under contract (s is usually old(x.f))
		var pre *State
		if c.curMk != nil && c.curMk.pre != nil {
			pre = c.curMk.pre
		} else {
			pre = c.pre
		}
		if pre == nil {
			unsupported("vcPreElem outside a contract")
		}
		et := fn.Params[0].Type().Underlying().(*types.Slice).Elem()
		s := args[0].T
		saved := fr.cur
		fr.cur = pre.clone()
		v := fr.load(Val{Ptr: &PtrVal{Root: RootElem, Arr: DataField_(s, 0), Idx: BV("bvadd", DataField_(s, 1), args[1].T), Elem: et}}, et, pos, false)
		fr.cur = saved
		return v, true
	case "vcOldBind":
		k, _ := args[0].T.IsLitBV()
		if c.oldBinds != nil {
			c.oldBinds[int(k)] = args[1]
		}
		return Val{}, true
	case "vcOldGet":
		k, _ := args[0].T.IsLitBV()
		if v, ok := c.oldBinds[int(k)]; ok {
			return v, true
		}
		unsupported("old() in a loop invariant could not be bound")
	case "vcMapHas":
		mt := fn.Params[0].Type().Underlying().(*types.Map)
		return Val{T: And(Not(Eq(args[0].T, BVLit(0, 64))), fr.mapHas(mt, args[0].T, args[1].T))}, true
	case "vcHeld":
		mt := fnParamElem(args[0])
		if mt == nil {
			unsupported("vcHeld on a mutex that is not addressed through a field")
		}
		cur := fr.load(args[0], mt, pos, false).T
		return Val{T: Not(Eq(cur, zeroOfSort(cur.S)))}, true
	case "vcIf":
		a, b := args[1].term(), args[2].term()
		if a == nil || b == nil {
			unsupported("vcIf on non-term values")
		}
		return Val{T: Ite(args[0].T, a, b)}, true
	case "vcSame":
		a, b := args[0].term(), args[1].term()
		if a == nil || b == nil {
			unsupported("vcSame on non-term values")
		}
		return Val{T: Eq(a, b)}, true
	case "vcErrorRaised":
		er := fr.cur.get("ghost:errRaised", SBool)
		c.prefer = append(c.prefer, Not(er))
		return Val{T: Or(fr.cur.get("ghost:readFailed", SBool), er, fr.cur.get("ghost:shortRead", SBool))}, true
	case "vcArr":
		return Val{T: DataField_(args[0].T, 0)}, true
	case "vcOff":
		return Val{T: DataField_(args[0].T, 1)}, true
	case "vcLen":
		return Val{T: DataField_(args[0].T, 2)}, true
	case "vcFresh", "vcFreshSlice":
		// allocated during the call: not alive at the contract's entry (and alive afterwards)
		base := c.alive0
		if c.curMk != nil && c.curMk.pre != nil {
			base = c.curMk.pre.get("alive", SArray(SRef, SBool))
		}
		ref := args[0].term()
		if base0 := base; fn.Origin() != nil && fn.Origin().Name() == "vcFreshSlice" || fn.Name() == "vcFreshSlice" {
			_ = base0
			ref = DataField_(args[0].T, 0)
			return Val{T: Or(Eq(ref, BVLit(0, 64)), Not(Select(base, ref)))}, true
		}
		if c.curMk != nil && c.curMk.mode == "use" && c.curMk.done {
			cur := fr.cur.get("alive", SArray(SRef, SBool))
			fr.cur.set("alive", Store(cur, ref, TTrue))
			if c.curMk.callerFrame != nil {
				c.curMk.freshRefs = append(c.curMk.freshRefs, ref)
			}
		}
		return Val{T: And(Not(Select(base, ref)), Not(Eq(ref, BVLit(0, 64))))}, true
	case "vcIsNaN":
		if floatMode == 0 {
			return Val{T: UFApp("ofp.isnan", SBool, args[0].T)}, true
		}
		return Val{T: App("fp.isNaN", SBool, args[0].T)}, true
	case "vcBits":
		if floatMode == 0 {
			return Val{T: args[0].T}, true
		}
		return Val{T: fpToBits(c, args[0].T)}, true
	case "vcNonNilErr":
		return Val{T: Not(Eq(DataField_(args[0].T, 0), BVLit(0, 32)))}, true
	case "vcMod":
		if c.modSink != nil {
			p := args[0].Ptr
			if p == nil {
				p = &PtrVal{Root: RootObj, Ref: args[0].T, Obj: fn.Params[0].Type().Underlying().(*types.Pointer).Elem()}
			}
			*c.modSink = append(*c.modSink, modTarget{kind: "loc", ptr: p, typ: fn.Params[0].Type().Underlying().(*types.Pointer).Elem()})
		}
		return Val{}, true
	case "vcModElems":
		if c.modSink != nil {
			*c.modSink = append(*c.modSink, modTarget{kind: "elems", sl: args[0].T, elem: fn.Params[0].Type().Underlying().(*types.Slice).Elem()})
		}
		return Val{}, true
	case "vcModMap":
		if c.modSink != nil {
			*c.modSink = append(*c.modSink, modTarget{kind: "map", sl: args[0].T, typ: fn.Params[0].Type()})
		}
		return Val{}, true
	case "vcModObj":
		if c.modSink != nil {
			et := fn.Params[0].Type().Underlying().(*types.Pointer).Elem()
			p := args[0].Ptr
			if p == nil {
				p = &PtrVal{Root: RootObj, Ref: args[0].T, Obj: et}
			}
			*c.modSink = append(*c.modSink, modTarget{kind: "obj", ptr: p, typ: et})
		}
		return Val{}, true
	case "vcHavoc":
		return fr.havocVal(fn.Signature.Results().At(0).Type(), "vcHavoc"), true
	}
	return Val{}, false
}

// fpToBits: IEEE bit pattern of a float (NaN payload unspecified): fresh bv b with to_fp(b) = x.
func fpToBits(c *Ctx, x *Term) *Term {
	if x.Lit && strings.HasPrefix(x.Op, "(fp ") {
		var s, e, m string
		fmt.Sscanf(x.Op, "(fp #b%s #b%s #x%s", &s, &e, &m)
	}
	b := FreshVar("fbits", SBV(64))
	c.assume(Eq(App("(_ to_fp 11 53)", SFP, b), x))
	return b
}

// ---- builtins ----

func (fr *Frame) builtin(b *ssa.Builtin, cc *ssa.CallCommon, args []Val, pos token.Pos, resType types.Type) Val {
	c := fr.ctx
	switch b.Name() {
	case "len", "cap":
		t := cc.Args[0].Type().Underlying()
		switch tt := t.(type) {
		case *types.Slice:
			if b.Name() == "len" {
				return Val{T: DataField_(args[0].T, 2)}
			}
			return Val{T: DataField_(args[0].T, 3)}
		case *types.Basic:
			return Val{T: DataField_(args[0].T, 2)}
		case *types.Array:
			return Val{T: BVLit(uint64(tt.Len()), 64)}
		case *types.Pointer:
			return Val{T: BVLit(uint64(tt.Elem().Underlying().(*types.Array).Len()), 64)}
		case *types.Map:
			return Val{T: Ite(Eq(args[0].T, BVLit(0, 64)), BVLit(0, 64), fr.mapLen(tt, args[0].T))}
		}
		unsupported("len of %s", t)
	case "append":
		return fr.appendOp(cc, args, pos)
	case "copy":
		return fr.copyOp(cc, args, pos)
	case "min", "max":
		t := cc.Args[0].Type()
		acc := args[0].T
		for _, a := range args[1:] {
			var lt *Term
			switch {
			case isFloat(t):
				unsupported("float min/max builtin")
			case isSigned(t):
				lt = BVCmp("bvslt", a.T, acc)
			default:
				lt = BVCmp("bvult", a.T, acc)
			}
			if b.Name() == "min" {
				acc = Ite(lt, a.T, acc)
			} else {
				acc = Ite(lt, acc, a.T)
			}
		}
		return Val{T: acc}
	case "panic":
		c.oblige(fr, "panic", "panic", TFalse, pos)
		return Val{}
	case "print", "println":
		return Val{}
	case "delete":
		mt := cc.Args[0].Type().Underlying().(*types.Map)
		fr.mapDelete(mt, args[0].T, args[1].T)
		return Val{}
	case "ssa:wrapnilchk":
		return args[0]
	}
	unsupported("builtin %s", b.Name())
	return Val{}
}

func (fr *Frame) appendOp(cc *ssa.CallCommon, args []Val, pos token.Pos) Val {
	c := fr.ctx
	st := cc.Args[0].Type().Underlying().(*types.Slice)
	et := st.Elem()
	s := args[0].T
	add := args[1].T
	addLen := DataField_(add, 2)
	k := elemKey(et)
	es := sortOf(et)
	ln, cp := DataField_(s, 2), DataField_(s, 3)
	off := DataField_(s, 1)
	newLen := BV("bvadd", ln, addLen)
	fits := BVCmp("bvsle", newLen, cp)
	c.splits = append(c.splits, fits)
	n, known := uint64(0), false
	if v, ok := addLen.IsLitBV(); ok && v <= 8 {
		n, known = v, true
	}
	if known && n == 0 {
		return Val{T: s}
	}
	narr := c.freshRef(fr, et, "append")
	ncap := FreshVar("append_cap", SInt)
	c.assume(And(BVCmp("bvsge", ncap, newLen), BVCmp("bvsle", ncap, BVLit(maxLen, 64))))
	c.assume(Implies(fr.abs(), BVCmp("bvsle", newLen, BVLit(maxLen, 64))))
	srcInners := elemInners(fr.cur, k, es, DataField_(s, 0))
	var addInners []*Term
	if isString(cc.Args[1].Type()) {
		addInners = []*Term{Select(fr.cur.get("e:str", SArray(SRef, SArray(SInt, SBV(8)))), DataField_(add, 0))}
	} else {
		addInners = elemInners(fr.cur, k, es, DataField_(add, 0))
	}
	ls := leavesOf(es)
	inPlace := make([]*Term, len(ls))
	fresh := make([]*Term, len(ls))
	for li, lf := range ls {
		src := srcInners[li]
		fr_ := FreshVar("append_contents", SArray(SInt, lf.sort))
		fresh[li] = fr_
		// fresh array: copy of the old elements
		q := BoundVar("j", SInt)
		c.assume(Forall([]*Term{q}, Implies(And(BVCmp("bvsge", q, BVLit(0, 64)), BVCmp("bvslt", q, ln)), Eq(Select(fr_, q), Select(src, BV("bvadd", off, q))))))
		if known {
			ip := src
			for i := uint64(0); i < n; i++ {
				v := Select(addInners[li], BV("bvadd", DataField_(add, 1), BVLit(i, 64)))
				ip = Store(ip, BV("bvadd", BV("bvadd", off, ln), BVLit(i, 64)), v)
				c.assume(Eq(Select(fr_, BV("bvadd", ln, BVLit(i, 64))), v))
			}
			inPlace[li] = ip
		} else {
			// unknown count: everything outside the appended range preserved, the appended range is a copy of the
			// source elements as they were before the call (memmove semantics, also when the two overlap)
			ipv := FreshVar("append_inplace", SArray(SInt, lf.sort))
			q2 := BoundVar("i", SInt)
			c.assume(Forall([]*Term{q2}, Implies(Not(And(BVCmp("bvsge", q2, BV("bvadd", off, ln)), BVCmp("bvslt", q2, BV("bvadd", off, newLen)))), Eq(Select(ipv, q2), Select(src, q2)))))
			q3 := BoundVar("a", SInt)
			inAdd := And(BVCmp("bvsge", q3, BVLit(0, 64)), BVCmp("bvslt", q3, addLen))
			srcElem := Select(addInners[li], BV("bvadd", DataField_(add, 1), q3))
			c.assume(Forall([]*Term{q3}, Implies(inAdd, Eq(Select(ipv, BV("bvadd", BV("bvadd", off, ln), q3)), srcElem))))
			c.assume(Forall([]*Term{q3}, Implies(inAdd, Eq(Select(fr_, BV("bvadd", ln, q3)), srcElem))))
			inPlace[li] = ipv
		}
	}
	// merge the two outcomes per leaf
	for li, lf := range ls {
		key := k + lf.suffix
		h := fr.cur.get(key, elemHeapSort(lf.sort))
		fr.cur.set(key, Ite(fits, Store(h, DataField_(s, 0), inPlace[li]), Store(h, narr, fresh[li])))
	}
	res := Ite(fits, MkData(SSlice, DataField_(s, 0), off, newLen, cp), MkData(SSlice, narr, BVLit(0, 64), newLen, ncap))
	return Val{T: res}
}

func (fr *Frame) copyOp(cc *ssa.CallCommon, args []Val, pos token.Pos) Val {
	c := fr.ctx
	st := cc.Args[0].Type().Underlying().(*types.Slice)
	et := st.Elem()
	dst, src := args[0].T, args[1].T
	k := elemKey(et)
	es := sortOf(et)
	dl, sl := DataField_(dst, 2), DataField_(src, 2)
	n := Ite(BVCmp("bvslt", dl, sl), dl, sl)
	dInners := elemInners(fr.cur, k, es, DataField_(dst, 0))
	var sInners []*Term
	if isString(cc.Args[1].Type()) {
		sInners = []*Term{Select(fr.cur.get("e:str", SArray(SRef, SArray(SInt, SBV(8)))), DataField_(src, 0))}
	} else {
		sInners = elemInners(fr.cur, k, es, DataField_(src, 0))
	}
	doff, soff := DataField_(dst, 1), DataField_(src, 1)
	ls := leavesOf(es)
	out := make([]*Term, len(ls))
	for li, lf := range ls {
		nInner := FreshVar("copy_dst", SArray(SInt, lf.sort))
		q := BoundVar("i", SInt)
		inRange := And(BVCmp("bvsge", q, doff), BVCmp("bvslt", q, BV("bvadd", doff, n)))
		c.assume(Forall([]*Term{q}, Eq(Select(nInner, q), Ite(inRange, Select(sInners[li], BV("bvadd", soff, BV("bvsub", q, doff))), Select(dInners[li], q)))))
		out[li] = nInner
	}
	elemSetInners(fr.cur, k, es, DataField_(dst, 0), out)
	return Val{T: n}
}

var _ = constant.MakeInt64

// ---------------------------------------------------------------- recursive spec functions

// recSpecOf returns the contract of fn when fn is a recursive spec function (a spec func with a decreases clause).
func (e *Engine) recSpecOf(fn *ssa.Function) *Contract {
	if e.recSpecs == nil {
		e.recSpecs = map[*ssa.Function]*Contract{}
		for _, cts := range e.cs.ByPkg {
			for _, ct := range cts {
				if ct.Kind == "spec" && ct.Flags["decreases"] != "" && ct.Disabled == "" {
					if g := e.genFunc(ct, ""); g != nil {
						e.recSpecs[g] = ct
					}
				}
			}
		}
	}
	return e.recSpecs[fn]
}

// recSpecCall applies a recursive spec function: the value is an uninterpreted function of the arguments and of the
// heap components the definition reads; outside quantifiers the definition is unfolded once (nested applications stay
// uninterpreted), which is what an inductive step needs. Well-foundedness of the definition is a separate obligation
// (unit <name>#specdef).
func (fr *Frame) recSpecCall(fn *ssa.Function, ct *Contract, args []Val, pos token.Pos, resType types.Type) Val {
	c := fr.ctx
	var ts []*Term
	for _, a := range args {
		t := a.term()
		if t == nil {
			unsupported("recursive spec function %s applied to a non-term argument", ct.Name)
		}
		ts = append(ts, t)
	}
	if c.recMeasure != nil && c.recTarget == fn && !fr.inQuant {
		// checking the definition itself: every nested application has a smaller, non-negative measure
		m := c.recMeasure(fr, args)
		c.oblige(fr, "specdef", "decreases", And(BVCmp("bvsle", BVLit(0, 64), m), BVCmp("bvslt", m, c.recMeasure0)), pos)
	}
	foot, ok := c.eng.recFoot[fn]
	if !ok {
		// discover the heap footprint by one trial evaluation on a scratch state
		if c.recTrial == nil {
			c.recTrial = map[*ssa.Function]bool{}
		}
		if c.recTrial[fn] {
			return Val{T: FreshVar("rectrial", sortOf(resType))}
		}
		c.recTrial[fn] = true
		savedTrack := readTrack
		readTrack = map[string]*Sort{}
		nA, nO := len(c.assumes), len(c.obligs)
		func() {
			defer func() { readTrack2 := readTrack; readTrack = savedTrack; c.recTrial[fn] = false
				var keys []string
				for k := range readTrack2 {
					if strings.HasPrefix(k, "cell:") || strings.HasPrefix(k, "ghost:") || k == "alive" {
						continue
					}
					keys = append(keys, k)
				}
				sort.Strings(keys)
				for _, k := range keys {
					foot = append(foot, footKey{k, readTrack2[k]})
					if savedTrack != nil {
						savedTrack[k] = readTrack2[k]
					}
				}
			}()
			c.runFunc(fn, args, nil, fr.cur.clone(), fr.abs(), fr, frameOpts{spec: true})
		}()
		c.assumes = c.assumes[:nA]
		c.obligs = c.obligs[:nO]
		c.eng.recFoot[fn] = foot
	}
	all := append([]*Term{}, ts...)
	for _, fk := range foot {
		all = append(all, fr.cur.get(fk.key, fk.sort))
	}
	app := UFApp("rec."+sanitize(fullName(fn)), sortOf(resType), all...)
	if c.inUse == nil {
		c.inUse = map[*ssa.Function]int{}
	}
	if fr.inQuant || c.inUse[fn] > 0 {
		return Val{T: app}
	}
	c.inUse[fn]++
	res, _, _ := c.runFunc(fn, args, nil, fr.cur.clone(), fr.abs(), fr, frameOpts{spec: true})
	c.inUse[fn]--
	if len(res) == 1 && res[0].term() != nil {
		c.assume(Implies(fr.abs(), Eq(app, res[0].term())))
	}
	return Val{T: app}
}

type footKey struct {
	key  string
	sort *Sort
}

func isGhostOf(ct *Contract, name string) bool {
	for _, g := range ct.Ghosts {
		if g.Name == name {
			return true
		}
	}
	return false
}

func contractMentions(ct *Contract, s string) bool {
	for _, e := range ct.Ensures {
		if strings.Contains(e.Expr, s) {
			return true
		}
	}
	return false
}
