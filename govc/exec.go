package main

// Instruction semantics.

import (
	"fmt"
	"go/constant"
	"go/token"
	"go/types"
	"math"
	"math/big"
	"strings"

	"golang.org/x/tools/go/ssa"
)

func zeroTerm(t types.Type) *Term {
	s := sortOf(t)
	return zeroOfSort(s)
}

func zeroOfSort(s *Sort) *Term {
	switch s.K {
	case KBool:
		return TFalse
	case KBV:
		return BVLit(0, s.W)
	case KFP:
		return fpLit(0)
	case KFP32:
		return lit("((_ to_fp 8 24) #x00000000)", SFP32)
	case KArray:
		return App(fmt.Sprintf("(as const %s)", s), s, zeroOfSort(s.Elem))
	case KData:
		args := make([]*Term, len(s.Data.Fields))
		for i, f := range s.Data.Fields {
			args[i] = zeroOfSort(f.Sort)
		}
		return MkData(s, args...)
	}
	panic("zeroOfSort")
}

func fpLit(f float64) *Term {
	b := math.Float64bits(f)
	if floatMode == 0 {
		return BVLit(b, 64)
	}
	return lit(fmt.Sprintf("(fp #b%b #b%011b #x%013x)", b>>63, (b>>52)&0x7ff, b&((1<<52)-1)), SFP)
}

func fpBitsLit(b uint64) *Term {
	return lit(fmt.Sprintf("(fp #b%b #b%011b #x%013x)", b>>63, (b>>52)&0x7ff, b&((1<<52)-1)), SFP)
}

var RNE = lit("RNE", &Sort{K: KRM})
var RTZ = lit("RTZ", &Sort{K: KRM})

func (fr *Frame) constVal(c *ssa.Const) Val {
	t := c.Type()
	if c.Value == nil {
		// nil / zero value
		if _, ok := t.Underlying().(*types.Tuple); ok {
			unsupported("const tuple")
		}
		return Val{T: zeroTerm(t)}
	}
	switch u := t.Underlying().(type) {
	case *types.Basic:
		switch {
		case u.Info()&types.IsBoolean != 0:
			if constant.BoolVal(c.Value) {
				return Val{T: TTrue}
			}
			return Val{T: TFalse}
		case u.Info()&types.IsInteger != 0:
			w := sortOf(t).W
			v := constant.ToInt(c.Value)
			bi, _ := new(big.Int).SetString(v.ExactString(), 10)
			return Val{T: BVLitBig(bi, w)}
		case u.Info()&types.IsFloat != 0:
			f, _ := constant.Float64Val(c.Value)
			if u.Kind() == types.Float32 {
				unsupported("float32 constant")
			}
			return Val{T: fpLit(f)}
		case u.Info()&types.IsString != 0:
			s := constant.StringVal(c.Value)
			return Val{T: fr.ctx.eng.stringLit(s)}
		}
	}
	unsupported("constant of type %s", t)
	return Val{}
}

// stringLit: a string constant is a slice header over a per-literal backing array whose contents are
// given by assumptions in Engine.stringAxioms (added lazily per context).
func (e *Engine) stringLit(s string) *Term {
	if t, ok := e.strLits[s]; ok {
		return t
	}
	id := len(e.strLits) + 1
	arr := BVLit(uint64(0xFFFF000000000000)+uint64(id), 64)
	n := BVLit(uint64(len(s)), 64)
	t := MkData(SSlice, arr, BVLit(0, 64), n, n)
	e.strLits[s] = t
	e.strArr[s] = arr
	return t
}

func (fr *Frame) value(v ssa.Value) Val {
	switch x := v.(type) {
	case *ssa.Const:
		return fr.constVal(x)
	case *ssa.Global:
		return Val{Ptr: &PtrVal{Root: RootGlobal, Glob: x, Obj: x.Type().Underlying().(*types.Pointer).Elem()}}
	case *ssa.Function:
		return Val{Clo: &Closure{Fn: x}}
	case *ssa.Builtin:
		unsupported("builtin %s as value", x.Name())
	}
	if r, ok := fr.vals[v]; ok {
		return r
	}
	panic(Unsupported{fmt.Sprintf("value %s (%T) of %s not defined (unreachable definition?)", v.Name(), v, fr.fn)})
}

func (fr *Frame) term(v ssa.Value) *Term {
	x := fr.value(v)
	t := x.term()
	if t == nil {
		unsupported("value %s in %s is not a first-order term (pointer to local/closure)", v.Name(), fr.fn)
	}
	return t
}

// ---- addresses ----

// asPtr interprets a value of pointer type as an address.
func (fr *Frame) asPtr(v Val, pointee types.Type) *PtrVal {
	if v.Ptr != nil {
		return v.Ptr
	}
	if v.T == nil {
		unsupported("not a pointer value")
	}
	return &PtrVal{Root: RootObj, Ref: v.T, Obj: pointee}
}

func (fr *Frame) nilCheck(p *PtrVal, pos token.Pos, what string) {
	if p.Root == RootObj {
		if p.Ref.Lit {
			if v, _ := p.Ref.IsLitBV(); v != 0 {
				return
			}
		}
		fr.ctx.oblige(fr, "nil", what, Not(Eq(p.Ref, BVLit(0, 64))), pos)
	}
}

// rootGet / rootSet read and write the whole root object component that path[0] selects.
func (fr *Frame) load(v Val, t types.Type, pos token.Pos, check bool) Val {
	p := fr.asPtr(v, t)
	if check {
		fr.nilCheck(p, pos, fr.ctx.eng.exprText(pos, "deref"))
	}
	root, rest := fr.rootRead(p)
	cur := root
	for _, pe := range rest {
		if pe.Field >= 0 {
			cur = DataField_(cur, pe.Field)
		} else {
			cur = Select(cur, pe.Index)
		}
	}
	res := Val{T: cur}
	if needsTypeAssume(t, 0) && !fr.inQuant && !hasBound(cur) {
		if !fr.ctx.wfDone[cur] {
			fr.ctx.wfDone[cur] = true
			fr.ctx.typeAssume(cur, t, TTrue)
		}
	}
	if hasPointers(t, 0) && !fr.inQuant && !hasBound(cur) {
		if _, isIface := t.Underlying().(*types.Interface); !isIface {
			k := [2]*Term{cur, fr.cur.get("alive", SArray(SRef, SBool))}
			if !fr.ctx.aliveDone[k] {
				fr.ctx.aliveDone[k] = true
				fr.aliveNow(cur, t)
			}
		}
	}
	return res
}

// rootRead returns the term of the outermost component addressed by p and the remaining path.
func (fr *Frame) rootRead(p *PtrVal) (*Term, []PathElem) {
	st := fr.cur
	switch p.Root {
	case RootCell:
		k := localKey(p.Cell)
		t, ok := st.m[k]
		if !ok {
			t = st.epoch.get(k, fr.ctx.cellSort[p.Cell])
		}
		return t, p.Path
	case RootGlobal:
		k := globalKey(p.Glob)
		return fr.ctx.globalRead(st, p.Glob, k), p.Path
	case RootElem:
		return elemRead(st, elemKey(p.Elem), sortOf(p.Elem), p.Arr, p.Idx), p.Path
	case RootObj:
		if u, ok := p.Obj.Underlying().(*types.Struct); ok && !opaqueStruct(p.Obj) {
			if len(p.Path) == 0 {
				// whole struct: assemble from fields
				args := make([]*Term, u.NumFields())
				for i := 0; i < u.NumFields(); i++ {
					args[i] = objRead(st, fieldKey(p.Obj, i), sortOf(u.Field(i).Type()), p.Ref)
				}
				return MkData(sortOf(p.Obj), args...), nil
			}
			pe := p.Path[0]
			if pe.Field < 0 {
				unsupported("index into struct object")
			}
			return objRead(st, fieldKey(p.Obj, pe.Field), sortOf(u.Field(pe.Field).Type()), p.Ref), p.Path[1:]
		}
		return objRead(st, cellKey(p.Obj), sortOf(p.Obj), p.Ref), p.Path
	}
	panic("rootRead")
}

func updatePath(cur *Term, path []PathElem, v *Term) *Term {
	if len(path) == 0 {
		return v
	}
	pe := path[0]
	if pe.Field >= 0 {
		return DataUpdate(cur, pe.Field, updatePath(DataField_(cur, pe.Field), path[1:], v))
	}
	return Store(cur, pe.Index, updatePath(Select(cur, pe.Index), path[1:], v))
}

func (fr *Frame) store(pv Val, t types.Type, val *Term, pos token.Pos, check bool) {
	p := fr.asPtr(pv, t)
	if check {
		fr.nilCheck(p, pos, fr.ctx.eng.exprText(pos, "deref"))
	}
	st := fr.cur
	switch p.Root {
	case RootCell:
		k := localKey(p.Cell)
		cur, ok := st.m[k]
		if !ok {
			cur = st.epoch.get(k, fr.ctx.cellSort[p.Cell])
		}
		st.set(k, updatePath(cur, p.Path, val))
	case RootGlobal:
		k := globalKey(p.Glob)
		cur := fr.ctx.globalRead(st, p.Glob, k)
		st.set(k, updatePath(cur, p.Path, val))
		fr.ctx.globalsWritten[k] = true
	case RootElem:
		k := elemKey(p.Elem)
		es := sortOf(p.Elem)
		cur := elemRead(st, k, es, p.Arr, p.Idx)
		elemWrite(st, k, es, p.Arr, p.Idx, updatePath(cur, p.Path, val))
	case RootObj:
		if u, ok := p.Obj.Underlying().(*types.Struct); ok && !opaqueStruct(p.Obj) {
			if len(p.Path) == 0 {
				for i := 0; i < u.NumFields(); i++ {
					objWrite(st, fieldKey(p.Obj, i), sortOf(u.Field(i).Type()), p.Ref, DataField_(val, i))
				}
				return
			}
			pe := p.Path[0]
			fk := fieldKey(p.Obj, pe.Field)
			fs := sortOf(u.Field(pe.Field).Type())
			objWrite(st, fk, fs, p.Ref, updatePath(objRead(st, fk, fs, p.Ref), p.Path[1:], val))
			return
		}
		k := cellKey(p.Obj)
		s := sortOf(p.Obj)
		objWrite(st, k, s, p.Ref, updatePath(objRead(st, k, s, p.Ref), p.Path, val))
	}
}

func (c *Ctx) globalRead(st *State, g *ssa.Global, k string) *Term {
	if t, ok := st.m[k]; ok {
		return t
	}
	elem := g.Type().Underlying().(*types.Pointer).Elem()
	if tab := c.eng.constTable(g); tab != nil && !c.globalsWritten[k] {
		return tab
	}
	return st.epoch.get(k, sortOf(elem))
}

// ---- exec ----

func (fr *Frame) exec(ins ssa.Instruction) {
	c := fr.ctx
	switch x := ins.(type) {
	case *ssa.DebugRef:
		return
	case *ssa.Alloc:
		elem := x.Type().Underlying().(*types.Pointer).Elem()
		if (x.Heap && !fr.spec) || allocMeetsPhi(x) {
			// (a local whose address is merged at a control-flow join, e.g. pa, pb = pb, pa, is modelled as a heap
			// object too: addresses of local cells are not terms)
			r := c.freshRef(fr, elem, x.Comment)
			pv := Val{T: r}
			fr.vals[x] = pv
			fr.store(pv, elem, zeroTerm(elem), x.Pos(), false)
			return
		}
		c.cellN++
		id := c.cellN
		c.cellSort[id] = sortOf(elem)
		fr.cur.set(localKey(id), zeroTerm(elem))
		fr.vals[x] = Val{Ptr: &PtrVal{Root: RootCell, Cell: id, Obj: elem}}
	case *ssa.BinOp:
		fr.vals[x] = Val{T: fr.binop(x)}
	case *ssa.UnOp:
		fr.unop(x)
	case *ssa.Phi:
		return
	case *ssa.Call:
		fr.call(x, x.Common(), x.Pos())
	case *ssa.ChangeType:
		v := fr.value(x.X)
		fr.vals[x] = v
	case *ssa.Convert:
		fr.vals[x] = Val{T: fr.convert(x)}
	case *ssa.ChangeInterface:
		fr.vals[x] = fr.value(x.X)
	case *ssa.MakeInterface:
		fr.vals[x] = fr.makeInterface(x)
	case *ssa.Extract:
		t := fr.value(x.Tuple)
		if t.Tuple == nil {
			unsupported("extract from non-tuple")
		}
		fr.vals[x] = t.Tuple[x.Index]
	case *ssa.Field:
		s := fr.term(x.X)
		if opaqueStruct(x.X.Type()) {
			fr.vals[x] = Val{T: UFApp(fmt.Sprintf("opaquefield.%s.%d", typeKey(x.X.Type()), x.Field), sortOf(x.Type()), s)}
			return
		}
		fr.vals[x] = Val{T: DataField_(s, x.Field)}
	case *ssa.FieldAddr:
		base := fr.value(x.X)
		pt := x.X.Type().Underlying().(*types.Pointer).Elem()
		p := fr.asPtr(base, pt)
		fr.nilCheck(p, x.Pos(), fr.ctx.eng.exprText(x.Pos(), "deref"))
		if opaqueStruct(pt) {
			unsupported("address of field of opaque struct %s", pt)
		}
		fr.vals[x] = Val{Ptr: p.extend(PathElem{Field: x.Field, Of: pt})}
	case *ssa.Index:
		a := fr.term(x.X)
		idx := fr.intTo64(x.Index)
		switch at := x.X.Type().Underlying().(type) {
		case *types.Array:
			fr.boundsCheck(idx, BVLit(uint64(at.Len()), 64), x.Pos())
			fr.vals[x] = Val{T: Select(a, idx)}
		default:
			if isString(x.X.Type()) {
				fr.boundsCheck(idx, DataField_(a, 2), x.Pos())
				fr.vals[x] = Val{T: fr.strByte(a, idx)}
				return
			}
			unsupported("Index on %s", x.X.Type())
		}
	case *ssa.IndexAddr:
		fr.indexAddr(x)
	case *ssa.Lookup:
		if isString(x.X.Type()) {
			a := fr.term(x.X)
			idx := fr.intTo64(x.Index)
			fr.boundsCheck(idx, DataField_(a, 2), x.Pos())
			fr.vals[x] = Val{T: fr.strByte(a, idx)}
			return
		}
		if _, ok := x.X.Type().Underlying().(*types.Map); ok {
			fr.mapLookup(x)
			return
		}
		unsupported("lookup in %s", fr.fn)
	case *ssa.MakeSlice:
		fr.makeSlice(x)
	case *ssa.MakeClosure:
		clo := &Closure{Fn: x.Fn.(*ssa.Function)}
		for _, b := range x.Bindings {
			clo.Bindings = append(clo.Bindings, fr.value(b))
		}
		fr.vals[x] = Val{Clo: clo}
	case *ssa.MakeMap:
		fr.makeMap(x)
	case *ssa.MapUpdate:
		fr.mapUpdate(x)
	case *ssa.Slice:
		fr.sliceOp(x)
	case *ssa.Store:
		pt := x.Addr.Type().Underlying().(*types.Pointer).Elem()
		val := fr.value(x.Val)
		t := val.term()
		if t == nil {
			if val.Clo != nil {
				t = FreshVar("funcval", sortOf(pt))
			} else {
				unsupported("storing a pointer-to-local into memory in %s", fr.fn)
			}
		}
		fr.store(fr.value(x.Addr), pt, t, x.Pos(), true)
	case *ssa.If:
		cond := fr.term(x.Cond)
		b := x.Block()
		if !fr.spec && !fr.inQuant && fr.depth <= 1 && !cond.Lit {
			c.ifSplits = append(c.ifSplits, cond)
		}
		fr.addEdge(b, b.Succs[0], And(fr.curReach, cond))
		fr.addEdge(b, b.Succs[1], And(fr.curReach, Not(cond)))
	case *ssa.Jump:
		b := x.Block()
		fr.addEdge(b, b.Succs[0], fr.curReach)
	case *ssa.Return:
		fr.runDefers(x.Pos())
		var rv []Val
		for _, r := range x.Results {
			rv = append(rv, fr.value(r))
		}
		fr.rets = append(fr.rets, EdgeRec{cond: fr.curReach, st: fr.cur})
		fr.retVals = append(fr.retVals, rv)
	case *ssa.Panic:
		msg := "panic"
		if mi, ok := x.X.(*ssa.MakeInterface); ok {
			if cst, ok := mi.X.(*ssa.Const); ok && cst.Value != nil && cst.Value.Kind() == constant.String {
				msg = constant.StringVal(cst.Value)
			}
		}
		if len(msg) > 60 {
			msg = msg[:60]
		}
		c.oblige(fr, "panic", msg, TFalse, x.Pos())
	case *ssa.RunDefers:
		fr.runDefers(x.Pos())
	case *ssa.Defer:
		fr.defers = append(fr.defers, x)
		// capture argument values now
		var args []Val
		for _, a := range x.Call.Args {
			args = append(args, fr.value(a))
		}
		fr.deferArgs = append(fr.deferArgs, deferRec{x, args, fr.value(x.Call.Value), fr.curReach})
	case *ssa.TypeAssert:
		fr.typeAssert(x)
	case *ssa.Range:
		if _, ok := x.X.Type().Underlying().(*types.Map); !ok {
			unsupported("range over string in %s", fr.fn)
		}
		// the iterator is the map itself
		fr.vals[x] = fr.value(x.X)
	case *ssa.Next:
		if x.IsString {
			unsupported("range over string in %s", fr.fn)
		}
		// Iteration over a map, over-approximated: each step either stops or yields SOME key currently in the map
		// (order, multiplicity and completeness of the visit are not modelled; sound for invariants and safety).
		rng, ok := x.Iter.(*ssa.Range)
		if !ok {
			unsupported("map iterator of unknown origin in %s", fr.fn)
		}
		mt := rng.X.Type().Underlying().(*types.Map)
		m := fr.value(x.Iter).term()
		okT := FreshVar("mapnext_ok", SBool)
		k := FreshVar("mapnext_key", sortOf(mt.Key()))
		c.typeAssume(k, mt.Key(), fr.curReach)
		c.assume(Implies(okT, And(Not(Eq(m, BVLit(0, 64))), fr.mapHas(mt, m, k))))
		v := fr.mapGet(mt, m, k)
		c.note("range over a map: modelled as an arbitrary sequence of present keys")
		fr.vals[x] = Val{Tuple: []Val{{T: okT}, {T: k}, {T: v}}}
	case *ssa.Go, *ssa.Send, *ssa.Select:
		unsupported("concurrency in %s", fr.fn)
	case *ssa.SliceToArrayPointer:
		unsupported("slice to array pointer")
	default:
		unsupported("instruction %T in %s", ins, fr.fn)
	}
}

func (c *Ctx) note(s string) {
	for _, n := range c.notes {
		if n == s {
			return
		}
	}
	c.notes = append(c.notes, s)
}

func (fr *Frame) runDefers(pos token.Pos) {
	if len(fr.deferArgs) == 0 {
		return
	}
	recs := fr.deferArgs
	for i := len(recs) - 1; i >= 0; i-- {
		d := recs[i]
		if d.fn.Clo == nil {
			unsupported("defer of dynamic function in %s", fr.fn)
		}
		if d.ins.Block() != fr.fn.Blocks[0] {
			// a defer statement on some paths only: the deferred call runs exactly on the paths that executed the
			// statement (its reach condition); inside a loop it could be registered many times: not supported
			if fr.info.loopOf[d.ins.Block()] != nil {
				unsupported("defer inside a loop in %s", fr.fn)
			}
			before := fr.cur.clone()
			saved := fr.curReach
			fr.curReach = And(fr.curReach, d.reach)
			_, st, _ := fr.ctx.runFunc(d.fn.Clo.Fn, d.args, d.fn.Clo.Bindings, fr.cur, fr.abs(), fr, frameOpts{prefix: "defer"})
			fr.curReach = saved
			fr.cur = mergeStates([]*Term{d.reach, Not(d.reach)}, []*State{st, before})
			continue
		}
		res, st, _ := fr.ctx.runFunc(d.fn.Clo.Fn, d.args, d.fn.Clo.Bindings, fr.cur, fr.abs(), fr, frameOpts{prefix: "defer"})
		_ = res
		fr.cur = st
	}
}

type deferRec struct {
	ins   *ssa.Defer
	args  []Val
	fn    Val
	reach *Term
}

func (fr *Frame) intTo64(v ssa.Value) *Term {
	t := fr.term(v)
	if t.S.W == 64 {
		return t
	}
	if isSigned(v.Type()) {
		return SignExt(64-t.S.W, t)
	}
	return ZeroExt(64-t.S.W, t)
}

func (fr *Frame) boundsCheck(idx, n *Term, pos token.Pos) {
	// 0 <= idx < n  as unsigned compare (n >= 0)
	fr.ctx.oblige(fr, "bounds", fr.ctx.eng.exprText(pos, "index"), BVCmp("bvult", idx, n), pos)
}

func (fr *Frame) strByte(s, idx *Term) *Term {
	k := "e:str"
	arr := fr.cur.get(k, SArray(SRef, SArray(SInt, SBV(8))))
	return Select(Select(arr, DataField_(s, 0)), BV("bvadd", DataField_(s, 1), idx))
}

func (fr *Frame) indexAddr(x *ssa.IndexAddr) {
	idx := fr.intTo64(x.Index)
	switch t := x.X.Type().Underlying().(type) {
	case *types.Slice:
		s := fr.term(x.X)
		fr.boundsCheck(idx, DataField_(s, 2), x.Pos())
		fr.vals[x] = Val{Ptr: &PtrVal{Root: RootElem, Arr: DataField_(s, 0), Idx: BV("bvadd", DataField_(s, 1), idx), Elem: t.Elem()}}
	case *types.Pointer:
		at := t.Elem().Underlying().(*types.Array)
		base := fr.value(x.X)
		p := fr.asPtr(base, t.Elem())
		fr.nilCheck(p, x.Pos(), "")
		fr.boundsCheck(idx, BVLit(uint64(at.Len()), 64), x.Pos())
		fr.vals[x] = Val{Ptr: p.extend(PathElem{Field: -1, Index: idx, Of: t.Elem()})}
	default:
		unsupported("IndexAddr on %s", x.X.Type())
	}
}

func (c *Ctx) freshRef(fr *Frame, elem types.Type, hint string) *Term {
	if hint == "" {
		hint = "obj"
	}
	r := FreshVar("new_"+hint, SRef)
	c.assume(Not(Eq(r, BVLit(0, 64))))
	alive := fr.cur.get("alive", SArray(SRef, SBool))
	c.assume(Not(Select(alive, r)))
	fr.cur.set("alive", Store(alive, r, TTrue))
	freshRefTerms[r] = true
	return r
}

func (fr *Frame) makeSlice(x *ssa.MakeSlice) {
	c := fr.ctx
	l := fr.intTo64(x.Len)
	cp := fr.intTo64(x.Cap)
	et := x.Type().Underlying().(*types.Slice).Elem()
	limit := c.eng.makeLimitFor(et, c.contract)
	c.oblige(fr, "make-size", fr.ctx.eng.exprText(x.Pos(), "call"), And(BVCmp("bvsle", BVLit(0, 64), l), BVCmp("bvsle", l, cp), BVCmp("bvsle", cp, BVLit(limit, 64))), x.Pos())
	arr := c.freshRef(fr, et, "arr")
	// zeroed contents
	es := sortOf(et)
	var zs []*Term
	for _, lf := range leavesOf(es) {
		zs = append(zs, zeroOfSort(SArray(SInt, lf.sort)))
	}
	elemSetInners(fr.cur, elemKey(et), es, arr, zs)
	fr.vals[x] = Val{T: MkData(SSlice, arr, BVLit(0, 64), l, cp)}
}

func (fr *Frame) sliceOp(x *ssa.Slice) {
	c := fr.ctx
	var lo, hi, mx *Term
	if x.Low != nil {
		lo = fr.intTo64(x.Low)
	} else {
		lo = BVLit(0, 64)
	}
	what := fr.ctx.eng.exprText(x.Pos(), "slice")
	switch t := x.X.Type().Underlying().(type) {
	case *types.Slice, *types.Basic:
		s := fr.term(x.X)
		ln, cp := DataField_(s, 2), DataField_(s, 3)
		isStr := false
		if _, ok := t.(*types.Basic); ok {
			isStr = true
			cp = ln
		}
		if x.High != nil {
			hi = fr.intTo64(x.High)
		} else {
			hi = ln
		}
		if x.Max != nil {
			mx = fr.intTo64(x.Max)
		} else {
			mx = cp
		}
		lim := cp
		if isStr {
			lim = ln
		}
		c.oblige(fr, "slice", what, And(BVCmp("bvule", lo, hi), BVCmp("bvule", hi, mx), BVCmp("bvule", mx, lim)), x.Pos())
		ncap := BV("bvsub", mx, lo)
		if isStr {
			ncap = BV("bvsub", hi, lo)
		}
		fr.vals[x] = Val{T: MkData(SSlice, DataField_(s, 0), BV("bvadd", DataField_(s, 1), lo), BV("bvsub", hi, lo), ncap)}
	case *types.Pointer:
		at := t.Elem().Underlying().(*types.Array)
		n := BVLit(uint64(at.Len()), 64)
		if x.High != nil {
			hi = fr.intTo64(x.High)
		} else {
			hi = n
		}
		c.oblige(fr, "slice", what, And(BVCmp("bvule", lo, hi), BVCmp("bvule", hi, n)), x.Pos())
		// slicing an array: copy the array contents into a fresh backing array (aliasing with the array is lost)
		base := fr.value(x.X)
		av := fr.load(base, t.Elem(), x.Pos(), true)
		arr := c.freshRef(fr, at.Elem(), "arrslice")
		es := sortOf(at.Elem())
		if es.K == KData {
			if at.Len() > 64 {
				unsupported("slicing a large array of structs")
			}
			var inners []*Term
			for _, lf := range leavesOf(es) {
				in := FreshVar("arrslice", SArray(SInt, lf.sort))
				for i := int64(0); i < at.Len(); i++ {
					ix := BVLit(uint64(i), 64)
					in = Store(in, ix, leafVal(Select(av.T, ix), lf))
				}
				inners = append(inners, in)
			}
			elemSetInners(fr.cur, elemKey(at.Elem()), es, arr, inners)
		} else {
			elemSetInners(fr.cur, elemKey(at.Elem()), es, arr, []*Term{av.T})
		}
		c.note("slice of array treated as a copy in " + fr.fn.String())
		fr.vals[x] = Val{T: MkData(SSlice, arr, lo, BV("bvsub", hi, lo), BV("bvsub", n, lo))}
	default:
		unsupported("slice of %s", x.X.Type())
	}
}

func (fr *Frame) makeInterface(x *ssa.MakeInterface) Val {
	v := fr.value(x.X)
	tag := fr.ctx.eng.typeTag(x.X.Type())
	var payload *Term
	if t := v.term(); t != nil && t.S.K == KBV && t.S.W == 64 {
		payload = t
	} else if t != nil {
		payload = UFApp("box."+typeKey(x.X.Type()), SBV(64), t)
	} else {
		payload = FreshVar("boxed", SBV(64))
	}
	vv := v
	return Val{T: MkData(SIface, BVLit(uint64(tag), 32), payload), Dyn: x.X.Type(), DynV: &vv}
}

func (fr *Frame) typeAssert(x *ssa.TypeAssert) {
	v := fr.value(x.X)
	it := v.term()
	c := fr.ctx
	if _, isIface := x.AssertedType.Underlying().(*types.Interface); isIface {
		// interface-to-interface: succeeds when non-nil (method sets not modelled)
		ok := FreshVar("assert_ok", SBool)
		c.assume(Implies(ok, nonNilIface(it)))
		if x.CommaOk {
			fr.vals[x] = Val{Tuple: []Val{{T: it, Dyn: v.Dyn, DynV: v.DynV}, {T: ok}}}
		} else {
			c.oblige(fr, "typeassert", fr.ctx.eng.exprText(x.Pos(), "assert"), ok, x.Pos())
			fr.vals[x] = Val{T: it, Dyn: v.Dyn, DynV: v.DynV}
		}
		return
	}
	tag := c.eng.typeTag(x.AssertedType)
	ok := Eq(DataField_(it, 0), BVLit(uint64(tag), 32))
	var inner Val
	if v.Dyn != nil && v.DynV != nil && types.Identical(v.Dyn, x.AssertedType) {
		inner = *v.DynV
	} else {
		s := sortOf(x.AssertedType)
		if s.K == KBV && s.W == 64 {
			inner = Val{T: DataField_(it, 1)}
		} else {
			inner = Val{T: UFApp("unbox."+typeKey(x.AssertedType), s, DataField_(it, 1))}
		}
	}
	if x.CommaOk {
		fr.vals[x] = Val{Tuple: []Val{inner, {T: ok}}}
	} else {
		c.oblige(fr, "typeassert", fr.ctx.eng.exprText(x.Pos(), "assert"), ok, x.Pos())
		fr.vals[x] = inner
	}
}

// ---- arithmetic ----

func (fr *Frame) binop(x *ssa.BinOp) *Term {
	c := fr.ctx
	xt := x.X.Type()
	a := fr.value(x.X)
	b := fr.value(x.Y)
	// pointer / interface / misc equality
	switch x.Op {
	case token.EQL, token.NEQ:
		var eq *Term
		if isFloat(xt) && floatMode == 0 {
			eq = UFApp("ofp.eq", SBool, a.term(), b.term())
		} else if isFloat(xt) {
			eq = App("fp.eq", SBool, a.term(), b.term())
		} else {
			at, bt := a.term(), b.term()
			if at == nil || bt == nil {
				// comparison involving pointer to local: only nil comparisons are decidable
				if at == nil && bt != nil {
					eq = TFalse
				} else if bt == nil && at != nil {
					eq = TFalse
				} else {
					unsupported("comparison of local addresses")
				}
			} else {
				eq = fr.goEq(xt, at, bt)
			}
		}
		if x.Op == token.NEQ {
			return Not(eq)
		}
		return eq
	}
	at, bt := fr.term(x.X), fr.term(x.Y)
	if isFloat(xt) {
		return c.floatBin(x.Op, at, bt)
	}
	if isString(xt) {
		switch x.Op {
		case token.ADD:
			r := FreshVar("strcat", SSlice)
			c.assume(sliceWF(r))
			c.assume(Eq(DataField_(r, 2), BV("bvadd", DataField_(at, 2), DataField_(bt, 2))))
			return r
		}
		return UFApp("strcmp."+x.Op.String(), SBool, at, bt)
	}
	if at.S.K == KBool {
		switch x.Op {
		case token.AND, token.LAND:
			return And(at, bt)
		case token.OR, token.LOR:
			return Or(at, bt)
		}
		unsupported("bool op %s", x.Op)
	}
	signed := isSigned(xt)
	w := at.S.W
	switch x.Op {
	case token.ADD:
		return BV("bvadd", at, bt)
	case token.SUB:
		return BV("bvsub", at, bt)
	case token.MUL:
		return BV("bvmul", at, bt)
	case token.QUO, token.REM:
		c.oblige(fr, "div-zero", fr.ctx.eng.exprText(x.Pos(), "binary"), Not(Eq(bt, BVLit(0, w))), x.Pos())
		if signed {
			if x.Op == token.QUO {
				return BV("bvsdiv", at, bt)
			}
			if c.contract != nil && c.contract.Flags["absmod"] != "" && !isConstTerm(bt) {
				// flag absmod: a signed remainder by a symbolic divisor is abstracted to an uninterpreted function that
				// keeps only the facts index wrap-around needs (an over-approximation: anything proved still holds)
				r := UFApp("absmod", at.S, at, bt)
				if hasBound(at) || hasBound(bt) {
					// inside a quantifier body the facts cannot be stated as top-level assumptions: exact remainder there
					return BV("bvsrem", at, bt)
				}
				zero := BVLit(0, w)
				nonneg := And(BVCmp("bvsle", zero, at), BVCmp("bvslt", zero, bt))
				c.assume(Implies(nonneg, And(BVCmp("bvsle", zero, r), BVCmp("bvslt", r, bt))))
				c.assume(Implies(And(nonneg, BVCmp("bvslt", at, bt)), Eq(r, at)))
				c.assume(Implies(And(nonneg, Eq(at, bt)), Eq(r, zero)))
				return r
			}
			return BV("bvsrem", at, bt)
		}
		if x.Op == token.QUO {
			return BV("bvudiv", at, bt)
		}
		return BV("bvurem", at, bt)
	case token.AND:
		return BV("bvand", at, bt)
	case token.OR:
		return BV("bvor", at, bt)
	case token.XOR:
		return BV("bvxor", at, bt)
	case token.AND_NOT:
		return BV("bvand", at, App("bvnot", at.S, bt))
	case token.SHL, token.SHR:
		// shift count: unsigned or (non-negative) signed of any width
		yt := x.Y.Type()
		cnt := bt
		if isSigned(yt) {
			c.oblige(fr, "shift-negative", fr.ctx.eng.exprText(x.Pos(), "binary"), BVCmp("bvsge", bt, BVLit(0, bt.S.W)), x.Pos())
		}
		// bring count to width w; counts >= w saturate
		var big *Term
		if cnt.S.W > w {
			big = BVCmp("bvuge", cnt, BVLit(uint64(w), cnt.S.W))
			cnt = Extract(w-1, 0, cnt)
		} else {
			if cnt.S.W < w {
				cnt = ZeroExt(w-cnt.S.W, cnt)
			}
			big = BVCmp("bvuge", cnt, BVLit(uint64(w), w))
		}
		if v, ok := cnt.IsLitBV(); ok {
			if v >= uint64(w) {
				big = TTrue
			} else {
				big = TFalse
			}
		}
		switch {
		case x.Op == token.SHL:
			return Ite(big, BVLit(0, w), BV("bvshl", at, cnt))
		case signed:
			// arithmetic shift; bvashr saturates naturally
			return Ite(big, BV("bvashr", at, BVLit(uint64(w-1), w)), BV("bvashr", at, cnt))
		default:
			return Ite(big, BVLit(0, w), BV("bvlshr", at, cnt))
		}
	case token.LSS, token.LEQ, token.GTR, token.GEQ:
		var op string
		switch x.Op {
		case token.LSS:
			op = "lt"
		case token.LEQ:
			op = "le"
		case token.GTR:
			op = "gt"
		case token.GEQ:
			op = "ge"
		}
		if signed {
			return BVCmp("bvs"+op, at, bt)
		}
		return BVCmp("bvu"+op, at, bt)
	}
	unsupported("binop %s", x.Op)
	return nil
}

// goEq: Go's == on values of type t.
func (fr *Frame) goEq(t types.Type, a, b *Term) *Term {
	switch u := t.Underlying().(type) {
	case *types.Basic:
		if u.Info()&types.IsFloat != 0 {
			if floatMode == 0 {
				return UFApp("ofp.eq", SBool, a, b)
			}
			return App("fp.eq", SBool, a, b)
		}
		if u.Info()&types.IsString != 0 {
			if a == b {
				return TTrue
			}
			return UFApp("streq", SBool, a, b)
		}
	case *types.Struct:
		if opaqueStruct(t) {
			return Eq(a, b)
		}
		var cs []*Term
		for i := 0; i < u.NumFields(); i++ {
			cs = append(cs, fr.goEq(u.Field(i).Type(), DataField_(a, i), DataField_(b, i)))
		}
		return And(cs...)
	case *types.Array:
		n := u.Len()
		if n > 16 {
			unsupported("array equality of length %d", n)
		}
		var cs []*Term
		for i := int64(0); i < n; i++ {
			ix := BVLit(uint64(i), 64)
			cs = append(cs, fr.goEq(u.Elem(), Select(a, ix), Select(b, ix)))
		}
		return And(cs...)
	case *types.Interface:
		return Eq(a, b)
	}
	return Eq(a, b)
}

func (c *Ctx) floatBin(op token.Token, a, b *Term) *Term {
	if floatMode == 0 {
		nm := map[token.Token]string{token.LSS: "lt", token.LEQ: "le", token.GTR: "gt", token.GEQ: "ge", token.ADD: "add", token.SUB: "sub", token.MUL: "mul", token.QUO: "div"}[op]
		if nm == "" {
			unsupported("float op %s", op)
		}
		switch op {
		case token.LSS, token.LEQ, token.GTR, token.GEQ:
			return UFApp("ofp."+nm, SBool, a, b)
		}
		r := UFApp("ofp."+nm, a.S, a, b)
		c.commAssume(op, "ofp."+nm, r, a, b)
		return r
	}
	switch op {
	case token.LSS:
		return App("fp.lt", SBool, a, b)
	case token.LEQ:
		return App("fp.leq", SBool, a, b)
	case token.GTR:
		return App("fp.gt", SBool, a, b)
	case token.GEQ:
		return App("fp.geq", SBool, a, b)
	}
	if a.S.K != KFP {
		unsupported("float32 arithmetic")
	}
	var name string
	switch op {
	case token.ADD:
		name = "fp.add"
	case token.SUB:
		name = "fp.sub"
	case token.MUL:
		name = "fp.mul"
	case token.QUO:
		name = "fp.div"
	default:
		unsupported("float op %s", op)
	}
	if c.fp {
		return App(name, SFP, RNE, a, b)
	}
	r := UFApp("u"+name, SFP, a, b)
	c.commAssume(op, "u"+name, r, a, b)
	return r
}

// commAssume (flag fcomm): uninterpreted float addition and multiplication are commutative, as IEEE-754 addition and
// multiplication are (NaN payloads aside).
func (c *Ctx) commAssume(op token.Token, name string, r, a, b *Term) {
	if c.contract == nil || c.contract.Flags["fcomm"] == "" || a == b {
		return
	}
	if op == token.ADD || op == token.MUL {
		c.assume(Eq(r, UFApp(name, r.S, b, a)))
	}
}

func (fr *Frame) unop(x *ssa.UnOp) {
	switch x.Op {
	case token.MUL:
		pt := x.X.Type().Underlying().(*types.Pointer).Elem()
		v := fr.load(fr.value(x.X), pt, x.Pos(), true)
		fr.vals[x] = v
	case token.NOT:
		fr.vals[x] = Val{T: Not(fr.term(x.X))}
	case token.SUB:
		t := fr.term(x.X)
		if isFloat(x.X.Type()) && floatMode == 0 {
			fr.vals[x] = Val{T: UFApp("ofp.neg", t.S, t)}
		} else if isFloat(x.X.Type()) {
			fr.vals[x] = Val{T: App("fp.neg", t.S, t)}
		} else {
			fr.vals[x] = Val{T: App("bvneg", t.S, t)}
		}
	case token.XOR:
		t := fr.term(x.X)
		fr.vals[x] = Val{T: App("bvnot", t.S, t)}
	default:
		unsupported("unop %s", x.Op)
	}
}

func (fr *Frame) convert(x *ssa.Convert) *Term {
	from, to := x.X.Type(), x.Type()
	t := fr.term(x.X)
	c := fr.ctx
	switch {
	case isInteger(from) && isInteger(to):
		fw, tw := t.S.W, sortOf(to).W
		switch {
		case tw == fw:
			return t
		case tw < fw:
			return Extract(tw-1, 0, t)
		case isSigned(from):
			return SignExt(tw-fw, t)
		default:
			return ZeroExt(tw-fw, t)
		}
	case isInteger(from) && isFloat(to) && floatMode == 0:
		if v, ok := t.IsLitBV(); ok && isSigned(from) {
			sv := int64(v)
			if t.S.W < 64 {
				sv = int64(v<<(64-uint(t.S.W))) >> (64 - uint(t.S.W))
			}
			return fpLit(float64(sv))
		}
		return UFApp(fmt.Sprintf("ofp.from_%s%d", map[bool]string{true: "i", false: "u"}[isSigned(from)], t.S.W), sortOf(to), t)
	case isFloat(from) && isInteger(to) && floatMode == 0:
		w := sortOf(to).W
		return UFApp(fmt.Sprintf("ofp.to_%s%d", map[bool]string{true: "i", false: "u"}[isSigned(to)], w), SBV(w), t)
	case isInteger(from) && isFloat(to):
		if sortOf(to).K != KFP {
			unsupported("float32 conversion")
		}
		if v, ok := t.IsLitBV(); ok {
			if isSigned(from) {
				sv := int64(v)
				if t.S.W < 64 {
					sv = int64(v<<(64-uint(t.S.W))) >> (64 - uint(t.S.W))
				}
				return fpLit(float64(sv))
			}
			return fpLit(float64(v))
		}
		if c.fp {
			if isSigned(from) {
				return App("(_ to_fp 11 53)", SFP, RNE, t)
			}
			return App("(_ to_fp_unsigned 11 53)", SFP, RNE, t)
		}
		if isSigned(from) {
			return UFApp(fmt.Sprintf("i%d_to_f64", t.S.W), SFP, t)
		}
		return UFApp(fmt.Sprintf("u%d_to_f64", t.S.W), SFP, t)
	case isFloat(from) && isInteger(to):
		w := sortOf(to).W
		if c.fp {
			if isSigned(to) {
				return App(fmt.Sprintf("(_ fp.to_sbv %d)", w), SBV(w), RTZ, t)
			}
			return App(fmt.Sprintf("(_ fp.to_ubv %d)", w), SBV(w), RTZ, t)
		}
		return UFApp(fmt.Sprintf("f64_to_%s%d", map[bool]string{true: "i", false: "u"}[isSigned(to)], w), SBV(w), t)
	case isFloat(from) && isFloat(to):
		if t.S == sortOf(to) {
			return t
		}
		unsupported("float32 conversion")
	case isString(to) || isString(from):
		// []byte <-> string and int -> string: abstracted as a fresh string of unknown content
		r := FreshVar("strconv", SSlice)
		c.assume(sliceWF(r))
		if t.S == SSlice {
			c.assume(Eq(DataField_(r, 2), DataField_(t, 2)))
		}
		return r
	}
	if sortOf(from) == sortOf(to) {
		return t
	}
	unsupported("conversion %s -> %s", from, to)
	return nil
}

var _ = strings.TrimSpace

func isConstTerm(t *Term) bool { return t != nil && len(t.Args) == 0 && strings.HasPrefix(t.Op, "#") }

// allocMeetsPhi: the address of this local variable is an operand of a phi node.
func allocMeetsPhi(a *ssa.Alloc) bool {
	if a.Referrers() == nil {
		return false
	}
	for _, r := range *a.Referrers() {
		if _, ok := r.(*ssa.Phi); ok {
			return true
		}
	}
	return false
}
