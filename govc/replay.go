package main

// Replay of solver counterexamples on the real code: the model's input values are turned into Go
// values, and an in-package test (injected with go test -overlay, nothing written to /repo) calls the
// real function and evaluates the same contract clause compiled to Go, or expects the predicted panic.

import (
	"sort"
	"bufio"
	"bytes"
	"encoding/json"
	"fmt"
	"go/types"
	"io"
	"os"
	"os/exec"
	"path/filepath"
	"regexp"
	"strconv"
	"strings"
	"time"
)

// ---- interactive solver session for model queries ----

type ModelSession struct {
	cmd   *exec.Cmd
	in    io.WriteCloser
	out   *bufio.Reader
	p     *Printer
	sent  int
	alive bool
}

// startSmallModelSession prefers models in which every slice is short (replayable).
func startSmallModelSession(c *Ctx, u *Unit, assumes []*Term, goal *Term, timeoutS int) (*ModelSession, string) {
	var slices []*Term
	for t := range c.sliceTerms {
		slices = append(slices, t)
	}
	sort.Slice(slices, func(i, j int) bool { return slices[i].ID < slices[j].ID })
	// preferences, strongest first: every read of the input stream succeeds / no validity check fails
	var readsOK, noCheckErr []*Term
	for _, ev := range c.reads {
		if !hasBound(ev.reach) && !hasBound(ev.err) {
			readsOK = append(readsOK, Implies(ev.reach, Eq(DataField_(ev.err, 0), BVLit(0, 32))))
		}
	}
	noCheckErr = append(noCheckErr, c.prefer...)
	both := append(append([]*Term{}, readsOK...), noCheckErr...)
	for _, pref := range [][]*Term{both, noCheckErr, readsOK, nil} {
		for _, bound := range []uint64{8, 200, 5000} {
			extra := append([]*Term{}, assumes...)
			extra = append(extra, pref...)
			for _, s := range slices {
				extra = append(extra, BVCmp("bvsle", DataField_(s, 3), BVLit(bound, 64)), BVCmp("bvsle", DataField_(s, 1), BVLit(bound, 64)))
			}
			ms, st := startModelSession(extra, goal, 20)
			if os.Getenv("VCDEBUG") != "" {
				fmt.Fprintf(os.Stderr, "model session pref=%d bound=%d: %s\n", len(pref), bound, st)
			}
			if ms != nil {
				return ms, st
			}
			if st == "unsat" {
				break // the preference itself is infeasible; weaker preference next
			}
		}
	}
	return startModelSession(assumes, goal, timeoutS)
}

func startModelSession(assumes0 []*Term, goal0 *Term, timeoutS int) (*ModelSession, string) {
	assumes, goal, _, _ := prepareVC(assumes0, goal0)
	p := NewPrinter()
	for _, a := range assumes {
		p.count(a)
	}
	p.count(goal)
	var hdr strings.Builder
	hdr.WriteString("(set-option :produce-models true)\n")
	// emit all assertions first to learn which datatypes are used
	var body strings.Builder
	for _, a := range assumes {
		s := p.Emit(a)
		fmt.Fprintf(p.out, "(assert %s)\n", s)
	}
	g := p.Emit(goal)
	fmt.Fprintf(p.out, "(assert (not %s))\n", g)
	// all datatypes (later queries may need more sorts: declare every known datatype)
	for _, s := range dataOrder {
		var fs []string
		for _, f := range s.Data.Fields {
			fs = append(fs, fmt.Sprintf("(%s %s)", f.Name, f.Sort))
		}
		fmt.Fprintf(&hdr, "(declare-datatypes ((%s 0)) (((%s %s))))\n", s.Name, s.Data.Ctor, strings.Join(fs, " "))
	}
	body.WriteString(p.out.String())
	cmd := exec.Command("z3-new", "-in", fmt.Sprintf("-T:%d", timeoutS))
	in, _ := cmd.StdinPipe()
	outp, _ := cmd.StdoutPipe()
	cmd.Stderr = cmd.Stdout
	if err := cmd.Start(); err != nil {
		return nil, "error"
	}
	ms := &ModelSession{cmd: cmd, in: in, out: bufio.NewReader(outp), p: p, alive: true}
	ms.sent = p.out.Len()
	io.WriteString(in, hdr.String()+body.String()+"(check-sat)\n")
	line, err := ms.out.ReadString('\n')
	if err != nil {
		ms.close()
		return nil, "error"
	}
	st := strings.TrimSpace(line)
	if st != "sat" {
		ms.close()
		return nil, st
	}
	return ms, "sat"
}

func (ms *ModelSession) close() {
	if ms.alive {
		ms.in.Close()
		ms.cmd.Process.Kill()
		ms.cmd.Wait()
		ms.alive = false
	}
}

// eval returns the model value of term t as SMT text.
func (ms *ModelSession) eval(t *Term) (string, error) {
	ms.p.count(t)
	s := ms.p.Emit(t)
	full := ms.p.out.String()
	extra := full[ms.sent:]
	ms.sent = len(full)
	io.WriteString(ms.in, extra+fmt.Sprintf("(get-value (%s))\n", s))
	// read one balanced s-expression
	var buf bytes.Buffer
	depth := 0
	started := false
	for {
		b, err := ms.out.ReadByte()
		if err != nil {
			return "", err
		}
		buf.WriteByte(b)
		if b == '(' {
			depth++
			started = true
		} else if b == ')' {
			depth--
		}
		if started && depth == 0 {
			break
		}
		if buf.Len() > 1<<20 {
			return "", fmt.Errorf("model value too large")
		}
	}
	txt := strings.TrimSpace(buf.String())
	if strings.HasPrefix(txt, "(error") {
		return "", fmt.Errorf("%s", txt)
	}
	// ((term value))
	inner := strings.TrimSpace(txt[1 : len(txt)-1])
	inner = strings.TrimSpace(inner[1 : len(inner)-1])
	parts := splitSexp(inner)
	if len(parts) < 2 {
		return "", fmt.Errorf("cannot parse model value %q", txt)
	}
	return strings.TrimSpace(strings.Join(parts[1:], " ")), nil
}

func parseBV(s string) (uint64, bool) {
	s = strings.TrimSpace(s)
	if strings.HasPrefix(s, "#x") {
		v, err := strconv.ParseUint(s[2:], 16, 64)
		return v, err == nil
	}
	if strings.HasPrefix(s, "#b") {
		v, err := strconv.ParseUint(s[2:], 2, 64)
		return v, err == nil
	}
	if strings.HasPrefix(s, "(_ bv") {
		f := strings.Fields(s[5:])
		v, err := strconv.ParseUint(f[0], 10, 64)
		return v, err == nil
	}
	return 0, false
}

var fpRe = regexp.MustCompile(`^\(fp (#b[01]) (#b[01]+) (#x[0-9a-fA-F]+|#b[01]+)\)$`)

func parseFP(s string) (uint64, bool) {
	s = strings.TrimSpace(s)
	switch {
	case strings.HasPrefix(s, "(_ +zero"):
		return 0, true
	case strings.HasPrefix(s, "(_ -zero"):
		return 1 << 63, true
	case strings.HasPrefix(s, "(_ +oo"):
		return 0x7ff0000000000000, true
	case strings.HasPrefix(s, "(_ -oo"):
		return 0xfff0000000000000, true
	case strings.HasPrefix(s, "(_ NaN"):
		return 0x7ff8000000000001, true
	}
	m := fpRe.FindStringSubmatch(s)
	if m == nil {
		return 0, false
	}
	sg, _ := parseBV(m[1])
	ex, _ := parseBV(m[2])
	mt, _ := parseBV(m[3])
	return sg<<63 | ex<<52 | mt, true
}

// ---- materialisation of Go values from the model ----

type Materializer struct {
	ms     *ModelSession
	c      *Ctx
	pkg    *types.Package
	stmts  []string
	objs   map[string]string // "type@ref" -> variable
	arrays map[string]string
	n      int
	err    error
	imports map[string]bool
	tooBig *Term
}

func (m *Materializer) fail(f string, a ...interface{}) string {
	if m.err == nil {
		m.err = fmt.Errorf(f, a...)
	}
	return "nil"
}

func (m *Materializer) typeStr(t types.Type) string {
	return types.TypeString(t, func(p *types.Package) string {
		if p == m.pkg {
			return ""
		}
		m.imports[p.Path()] = true
		return p.Name()
	})
}

func (m *Materializer) evalBV(t *Term) (uint64, bool) {
	s, err := m.ms.eval(t)
	if err != nil {
		m.fail("model query failed: %v", err)
		return 0, false
	}
	v, ok := parseBV(s)
	if !ok {
		m.fail("cannot parse bit-vector value %q", s)
	}
	return v, ok
}

func (m *Materializer) preHeap(key string, srt *Sort) *Term {
	return m.c.pre.epoch.get(key, srt)
}

// expr returns a Go expression for the value of term t of Go type typ in the pre-state.
func (m *Materializer) expr(t *Term, typ types.Type, depth int) string {
	if m.err != nil {
		return "nil"
	}
	if depth > 6 {
		return m.fail("object graph too deep")
	}
	ts := m.typeStr(typ)
	switch u := typ.Underlying().(type) {
	case *types.Basic:
		switch {
		case u.Info()&types.IsBoolean != 0:
			s, err := m.ms.eval(t)
			if err != nil {
				return m.fail("%v", err)
			}
			return fmt.Sprintf("%s(%s)", ts, s)
		case u.Info()&types.IsInteger != 0:
			v, _ := m.evalBV(t)
			w := t.S.W
			if u.Info()&types.IsUnsigned == 0 {
				sv := int64(v<<(64-uint(w))) >> (64 - uint(w))
				return fmt.Sprintf("%s(%d)", ts, sv)
			}
			return fmt.Sprintf("%s(0x%x)", ts, v)
		case u.Info()&types.IsFloat != 0 && t.S.K == KBV:
			b, _ := m.evalBV(t)
			m.imports["math"] = true
			return fmt.Sprintf("%s(math.Float64frombits(0x%x))", ts, b)
		case u.Info()&types.IsFloat != 0:
			s, err := m.ms.eval(t)
			if err != nil {
				return m.fail("%v", err)
			}
			b, ok := parseFP(s)
			if !ok {
				return m.fail("cannot parse float value %q", s)
			}
			m.imports["math"] = true
			return fmt.Sprintf("%s(math.Float64frombits(0x%x))", ts, b)
		case u.Info()&types.IsString != 0:
			ln, _ := m.evalBV(DataField_(t, 2))
			if ln > 4096 {
				return m.fail("string of length %d too large to replay", ln)
			}
			arr := Select(m.preHeap("e:str", SArray(SRef, SArray(SInt, SBV(8)))), DataField_(t, 0))
			var bs []string
			for i := uint64(0); i < ln; i++ {
				b, _ := m.evalBV(Select(arr, BV("bvadd", DataField_(t, 1), BVLit(i, 64))))
				bs = append(bs, fmt.Sprintf("%d", b))
			}
			return fmt.Sprintf("%s([]byte{%s})", ts, strings.Join(bs, ","))
		}
	case *types.Struct:
		if opaqueStruct(typ) {
			return ts + "{}"
		}
		var fs []string
		for i := 0; i < u.NumFields(); i++ {
			f := u.Field(i)
			if f.Name() == "_" {
				continue
			}
			if opaqueStruct(f.Type()) {
				continue
			}
			if _, isMap := f.Type().Underlying().(*types.Map); isMap {
				continue
			}
			fs = append(fs, fmt.Sprintf("%s: %s", f.Name(), m.expr(DataField_(t, i), f.Type(), depth+1)))
		}
		return fmt.Sprintf("%s{%s}", ts, strings.Join(fs, ", "))
	case *types.Array:
		if u.Len() > 64 {
			return m.fail("array too large")
		}
		var es []string
		for i := int64(0); i < u.Len(); i++ {
			es = append(es, m.expr(Select(t, BVLit(uint64(i), 64)), u.Elem(), depth+1))
		}
		return fmt.Sprintf("%s{%s}", ts, strings.Join(es, ", "))
	case *types.Pointer:
		ref, _ := m.evalBV(t)
		if ref == 0 {
			return fmt.Sprintf("(%s)(nil)", ts)
		}
		key := fmt.Sprintf("%s@%x", ts, ref)
		if v, ok := m.objs[key]; ok {
			return v
		}
		m.n++
		name := fmt.Sprintf("obj%d", m.n)
		m.objs[key] = name
		et := u.Elem()
		m.stmts = append(m.stmts, fmt.Sprintf("%s := new(%s)", name, m.typeStr(et)))
		// contents from the pre-state heap at the concrete ref
		rt := BVLit(ref, 64)
		if st, ok := et.Underlying().(*types.Struct); ok && !opaqueStruct(et) {
			for i := 0; i < st.NumFields(); i++ {
				f := st.Field(i)
				if opaqueStruct(f.Type()) {
					continue
				}
				if _, isMap := f.Type().Underlying().(*types.Map); isMap {
					m.stmts = append(m.stmts, fmt.Sprintf("%s.%s = make(%s)", name, f.Name(), m.typeStr(f.Type())))
					continue
				}
				fv := objRead(m.c.pre, fieldKey(et, i), sortOf(f.Type()), rt)
				m.stmts = append(m.stmts, fmt.Sprintf("%s.%s = %s", name, f.Name(), m.expr(fv, f.Type(), depth+1)))
			}
		} else if !opaqueStruct(et) {
			v := objRead(m.c.pre, cellKey(et), sortOf(et), rt)
			m.stmts = append(m.stmts, fmt.Sprintf("*%s = %s", name, m.expr(v, et, depth+1)))
		}
		return name
	case *types.Slice:
		arr, _ := m.evalBV(DataField_(t, 0))
		off, _ := m.evalBV(DataField_(t, 1))
		ln, _ := m.evalBV(DataField_(t, 2))
		cp, _ := m.evalBV(DataField_(t, 3))
		if arr == 0 || cp == 0 {
			if ln == 0 {
				return fmt.Sprintf("%s(nil)", ts)
			}
		}
		if off+cp > 20000 || ln > cp {
			if ln <= 20000 {
				// keep the length, drop the excess capacity
				cp = ln
				if off > 1000 {
					off = 0
				}
			} else {
				m.tooBig = t
				return m.fail("slice of length %d (cap %d) too large to replay", ln, cp)
			}
		}
		et := u.Elem()
		key := fmt.Sprintf("[]%s@%x", m.typeStr(et), arr)
		back, ok := m.arrays[key]
		if !ok {
			m.n++
			back = fmt.Sprintf("arr%d", m.n)
			m.arrays[key] = back
			total := off + cp
			m.stmts = append(m.stmts, fmt.Sprintf("%s := make([]%s, %d)", back, m.typeStr(et), total))
			inners := elemInners(m.c.pre, elemKey(et), sortOf(et), BVLit(arr, 64))
			// materialise the visible window (and the slack up to cap when small)
			hi := off + ln
			if cp-ln <= 8 {
				hi = off + cp
			}
			for i := off; i < hi; i++ {
				m.stmts = append(m.stmts, fmt.Sprintf("%s[%d] = %s", back, i, m.expr(elemAt(sortOf(et), inners, BVLit(i, 64)), et, depth+1)))
			}
		}
		return fmt.Sprintf("%s(%s[%d:%d:%d])", ts, back, off, off+ln, off+cp)
	case *types.Interface:
		tag, _ := m.evalBV(DataField_(t, 0))
		if tag == 0 {
			return fmt.Sprintf("%s(nil)", ts)
		}
		if ts == "error" {
			m.imports["errors"] = true
			return `errors.New("replay")`
		}
		if it, ok := typ.Underlying().(*types.Interface); ok {
			for i := 0; i < it.NumMethods(); i++ {
				if nm := it.Method(i).Name(); nm == "Read" || nm == "ReadByte" {
					bs, _ := m.streamBytes()
					if m.err != nil {
						return "nil"
					}
					var l []string
					for _, b := range bs {
						l = append(l, fmt.Sprintf("%d", b))
					}
					return fmt.Sprintf("vcStream([]byte{%s})", strings.Join(l, ","))
				}
			}
		}
		for k, n := range m.c.eng.typeTags {
			if uint64(n) == tag {
				// find the types.Type by string among known types: only pointer-to-named in this package is supported
				if ct := m.c.eng.typeByString[k]; ct != nil {
					if _, isPtr := ct.Underlying().(*types.Pointer); isPtr {
						return m.expr(DataField_(t, 1), ct, depth+1)
					}
				}
			}
		}
		return m.fail("interface value of unknown dynamic type (tag %d) cannot be replayed", tag)
	}
	return m.fail("values of type %s cannot be materialised", ts)
}

// ---- replay test generation ----

const replayPrelude = `
var vcReplayFailed []string
var vcReplayPreFailed bool
var vcReplayQuantLo, vcReplayQuantHi = -3, 70

func vcRequires(b bool) { if !b { vcReplayPreFailed = true } }
func vcEnsures(b bool, label string) { if !b { vcReplayFailed = append(vcReplayFailed, label) } }
func vcInvariant(b bool, label string) {}
func vcDecreases(x int) {}
type vcInt interface{ ~int | ~int8 | ~int16 | ~int32 | ~int64 | ~uint | ~uint8 | ~uint16 | ~uint32 | ~uint64 }
func vcForall[T any](f func(T) bool) bool {
	var z T
	switch any(z).(type) {
	case int:
		for i := vcReplayQuantLo; i <= vcReplayQuantHi; i++ { if !any(f).(func(int) bool)(i) { return false } }
	case int32:
		for i := vcReplayQuantLo; i <= vcReplayQuantHi; i++ { if !any(f).(func(int32) bool)(int32(i)) { return false } }
	case uint64:
		for _, i := range vcReplayU64 { if !any(f).(func(uint64) bool)(i) { return false } }
	case CellID:
		for _, i := range vcReplayU64 { if !any(f).(func(CellID) bool)(CellID(i)) { return false } }
	}
	return true
}
func vcExists[T any](f func(T) bool) bool {
	var z T
	switch any(z).(type) {
	case int:
		for i := vcReplayQuantLo; i <= vcReplayQuantHi; i++ { if any(f).(func(int) bool)(i) { return true } }
		return false
	case uint64:
		for _, i := range vcReplayU64 { if any(f).(func(uint64) bool)(i) { return true } }
		return false
	case CellID:
		for _, i := range vcReplayU64 { if any(f).(func(CellID) bool)(CellID(i)) { return true } }
		return false
	}
	return true
}
var vcReplayU64 []uint64
func vcArr[T any](s []T) uint64 { if cap(s) == 0 { return 0 }; return uint64(uintptr(vcUnsafe.Pointer(vcUnsafe.SliceData(s[:cap(s)])))) }
func vcOff[T any](s []T) int { return 0 }
func vcAllocated[T any](s []T) bool { return true }
func vcPreElem[T any](s []T, k int) T { panic("vcPreElem: pre-state elements are not available at replay time") }
func vcFresh[T any](p *T) bool { return true }
func vcFreshSlice[T any](s []T) bool { return true }
func vcUnchanged[T any](p *T) bool { return true }
func vcHavoc[T any]() (r T) { return }
func vcIsNaN(x float64) bool { return x != x }
func vcBits(x float64) uint64 { return vcMath.Float64bits(x) }
func vcNonNilErr(e error) bool { return e != nil }
func vcTypeIs[T any](x any) bool { _, ok := x.(T); return ok }
func vcMod[T any](p *T) {}
func vcModElems[T any](s []T) {}
func vcModObj[T any](p *T) {}
func vcModMap[K comparable, V any](m map[K]V) {}
func vcLen[T any](s []T) int { return len(s) }
func vcIf[T any](c bool, a, b T) T { if c { return a }; return b }
func vcFirst[A, B any](a A, b B) A { return a }
func vcSecond[A, B any](a A, b B) B { return b }
func vcMapHas[K comparable, V any](m map[K]V, k K) bool { _, ok := m[k]; return ok }
func vcHeld[T any](mu *T) bool { return false }
func vcOldGet[T any](k int, witness T) T { return witness }
func vcOldBind[T any](k int, x T) {}
var vcReplayReadFailed bool
type vcTrackedReader struct{ r *vcBytes.Reader }
func (t *vcTrackedReader) Read(p []byte) (int, error) { n, err := t.r.Read(p); if err != nil { vcReplayReadFailed = true }; return n, err }
func (t *vcTrackedReader) ReadByte() (byte, error) { b, err := t.r.ReadByte(); if err != nil { vcReplayReadFailed = true }; return b, err }
func vcStream(b []byte) *vcTrackedReader { return &vcTrackedReader{vcBytes.NewReader(b)} }
func vcErrorRaised() bool { return vcReplayReadFailed }
func vcSame[T any](a, b T) bool { return vcFmt.Sprintf("%#v", a) == vcFmt.Sprintf("%#v", b) }
`

type ReplayOutcome struct {
	Confirmed bool
	Reason    string
	Inputs    []string
	TestSrc   string
	Output    string
	Observed  string
}

// replayOblig tries to reproduce the failure of ob on the real code.
func (e *Engine) replayOblig(u *Unit, ob *Oblig) ReplayOutcome {
	var ro ReplayOutcome
	if ob.Status != "sat" {
		ro.Reason = "solver gave no model (" + ob.Status + ")"
		return ro
	}
	ct := u.Contract
	c := u.Ctx
	sp := e.pkgs[ct.Dir]
	var m *Materializer
	var argNames []string
	var decls []string
	var extra []*Term // slices the model made too long to rebuild: bounded and retried
	for attempt := 0; ; attempt++ {
		as := append(append([]*Term{}, u.Assumes[:ob.NAssume]...), extra...)
		ms, st := startSmallModelSession(c, u, as, ob.Goal, 60)
		if ms == nil {
			ro.Reason = "model session: " + st
			return ro
		}
		m = &Materializer{ms: ms, c: c, pkg: sp.Pkg, objs: map[string]string{}, arrays: map[string]string{}, imports: map[string]bool{}}
		argNames, decls, ro.Inputs = nil, nil, nil
		for _, in := range u.Inputs {
			ex := m.expr(in.V.T, in.Type, 0)
			if m.err != nil {
				break
			}
			decls = append(decls, fmt.Sprintf("var in_%s %s = %s", in.Name, m.typeStr(in.Type), ex))
			argNames = append(argNames, "in_"+in.Name)
			ro.Inputs = append(ro.Inputs, fmt.Sprintf("%s = %s", in.Name, ex))
		}
		if m.err != nil && m.tooBig != nil && attempt < 8 {
			extra = append(extra, BVCmp("bvsle", DataField_(m.tooBig, 3), BVLit(8, 64)), BVCmp("bvsle", DataField_(m.tooBig, 1), BVLit(8, 64)))
			ms.close()
			continue
		}
		defer ms.close()
		if m.err != nil {
			ro.Reason = "cannot build input: " + m.err.Error()
			return ro
		}
		break
	}
	if len(m.stmts) > 0 {
		ro.Inputs = append([]string{strings.Join(m.stmts, "; ")}, ro.Inputs...)
	}
	expectPanic := false
	switch ob.Kind {
	case "bounds", "nil", "slice", "make-size", "div-zero", "panic", "typeassert", "shift-negative":
		expectPanic = true
	}
	label := ""
	if ob.Kind == "lemma" {
		ob.Kind = "post"
	}
	if ob.Kind == "post" {
		if i := strings.Index(ob.Name, "("); i >= 0 {
			label = ob.Name[i+1:]
			if j := strings.Index(label, ")"); j >= 0 {
				label = label[:j]
			}
		}
	}
	// the replay file: contract functions with the executable prelude
	gen := e.genSrc[ct.Dir]
	prel := replayPrelude
	if ct.Pkg != "s2" {
		// the CellID quantifier cases exist only in package s2: drop each "case CellID:" line and the line after it
		lines := strings.Split(prel, "\n")
		var kept []string
		for k := 0; k < len(lines); k++ {
			if strings.TrimSpace(lines[k]) == "case CellID:" {
				k++
				continue
			}
			kept = append(kept, lines[k])
		}
		prel = strings.Join(kept, "\n")
	}
	gen = strings.Replace(gen, specPrelude, prel, 1)
	// imports for the prelude
	pkgLine := "package " + ct.Pkg + "\n"
	imports := "import (\n\tvcBytes \"bytes\"\n\tvcFmt \"fmt\"\n\tvcMath \"math\"\n\tvcUnsafe \"unsafe\"\n)\nvar _ = vcMath.Pi\nvar _ vcUnsafe.Pointer\n"
	if strings.Contains(gen, "\nimport (") {
		gen = strings.Replace(gen, "\nimport (", "\nimport (\n\tvcBytes \"bytes\"\n\tvcFmt \"fmt\"\n\tvcMath \"math\"\n\tvcUnsafe \"unsafe\"", 1)
		gen += "\nvar _ = vcMath.Pi\nvar _ vcUnsafe.Pointer\n"
	} else {
		gen = strings.Replace(gen, pkgLine, pkgLine+imports, 1)
	}
	var tb strings.Builder
	fmt.Fprintf(&tb, "package %s\n\nimport (\n\t\"fmt\"\n\t\"testing\"\n", ct.Pkg)
	for im := range m.imports {
		if strings.HasPrefix(im, geoModule) || !strings.Contains(im, ".") {
			fmt.Fprintf(&tb, "\t%q\n", im)
		}
	}
	tb.WriteString(")\n\nfunc TestVCReplay(t *testing.T) {\n")
	for _, s := range m.stmts {
		tb.WriteString("\t" + s + "\n")
	}
	for _, d := range decls {
		tb.WriteString("\t" + d + "\n")
	}
	if hint := ct.Flags["replay"]; hint != "" {
		tb.WriteString("\t" + hint + "\n")
	}
	tb.WriteString("\tvcReplayU64 = []uint64{0, 1, 2, 3}\n")
	tb.WriteString("\tdefer func() {\n\t\tif r := recover(); r != nil {\n\t\t\tfmt.Printf(\"VCREPLAY panic: %v\\n\", r)\n\t\t}\n\t}()\n")
	fmt.Fprintf(&tb, "\t%s(%s)\n", ct.GenName, strings.Join(argNames, ", "))
	tb.WriteString("\tfmt.Printf(\"VCREPLAY prefailed=%v failed=%q\\n\", vcReplayPreFailed, vcReplayFailed)\n}\n")
	ro.TestSrc = tb.String()

	tmp, err := os.MkdirTemp("", "vcreplay")
	if err != nil {
		ro.Reason = err.Error()
		return ro
	}
	defer os.RemoveAll(tmp)
	genFile := filepath.Join(tmp, "zz_vc_generated.go")
	testFile := filepath.Join(tmp, "zz_vc_replay_test.go")
	os.WriteFile(genFile, []byte(gen), 0644)
	os.WriteFile(testFile, []byte(ro.TestSrc), 0644)
	ov := map[string]map[string]string{"Replace": {
		filepath.Join(e.repo, ct.Dir, "zz_vc_generated.go"):    genFile,
		filepath.Join(e.repo, ct.Dir, "zz_vc_replay_test.go"): testFile,
	}}
	ovData, _ := json.Marshal(ov)
	ovFile := filepath.Join(tmp, "overlay.json")
	os.WriteFile(ovFile, ovData, 0644)
	cmd := exec.Command("bash", "-c", fmt.Sprintf("ulimit -v 8000000; cd %s && go test -tags=verif -overlay %s -vet=off -count=1 -v -timeout 60s -run '^TestVCReplay$' ./%s 2>&1 | head -c 20000", e.repo, ovFile, ct.Dir))
	cmd.Env = append(os.Environ(), "GOFLAGS=-mod=readonly", "GOPROXY=off", "GOSUMDB=off", "GOTOOLCHAIN=local")
	startT := time.Now()
	out, _ := cmd.CombinedOutput()
	_ = startT
	ro.Output = string(out)
	switch {
	case strings.Contains(ro.Output, "VCREPLAY panic:"):
		i := strings.Index(ro.Output, "VCREPLAY panic:")
		ro.Observed = strings.SplitN(ro.Output[i:], "\n", 2)[0]
		if expectPanic {
			ro.Confirmed = true
		} else {
			ro.Reason = "the replay panicked before the clause could be evaluated (the model's input is not a usable object graph): " + ro.Observed
		}
	case strings.Contains(ro.Output, "panic: test timed out"):
		ro.Observed = "hang (test timed out after 60s)"
		ro.Confirmed = true
	case strings.Contains(ro.Output, "fatal error:") || strings.Contains(ro.Output, "out of memory") || strings.Contains(ro.Output, "cannot allocate"):
		ro.Observed = "process aborted: " + firstLines(ro.Output, 2)
		// an abort counts only for obligations about the code's own failures (panic kinds: a real allocation or
		// deadlock abort), and never when it is the replay harness that overflowed (recursive specification
		// functions are evaluated eagerly there)
		abortOK := expectPanic || ob.Kind == "pre" || ob.Kind == "lock-not-held" || ob.Kind == "unlock-held"
		if abortOK && !strings.Contains(ro.Output, "stack exceeds") {
			ro.Confirmed = true
		} else {
			ro.Reason = "the replay process aborted before the clause could be evaluated: " + firstLines(ro.Output, 1)
		}
	case strings.Contains(ro.Output, "VCREPLAY prefailed="):
		i := strings.Index(ro.Output, "VCREPLAY prefailed=")
		line := strings.SplitN(ro.Output[i:], "\n", 2)[0]
		ro.Observed = line
		if strings.Contains(line, "prefailed=true") {
			ro.Reason = "the model's input does not satisfy the precondition on the real code (counterexample passes through an abstraction)"
		} else if ob.Kind == "post" && strings.Contains(line, fmt.Sprintf("%q", label)) {
			ro.Confirmed = true
		} else if ob.Kind == "post" && !strings.Contains(line, "failed=[]") {
			ro.Confirmed = true
		} else {
			ro.Reason = "the real code satisfied the clause on the model's input (counterexample passes through an abstraction)"
		}
	default:
		ro.Reason = "replay test did not run: " + firstLines(ro.Output, 6)
	}
	return ro
}

// streamBytes reconstructs an input byte string from the adversarial read events of the model:
// the reads executed in the model, in program order, each contributing the bytes that decode to the
// value it returned; the stream ends at the first read the model made fail.
func (m *Materializer) streamBytes() ([]byte, bool) {
	var out []byte
	complete := true
	for _, ev := range m.c.reads {
		if hasBound(ev.reach) {
			continue
		}
		rs, err := m.ms.eval(ev.reach)
		if err != nil || strings.TrimSpace(rs) != "true" {
			continue
		}
		if ev.preErr != nil {
			ptag, ok := m.evalBV(DataField_(ev.preErr, 0))
			if !ok {
				return out, false
			}
			if ptag != 0 {
				continue // sticky error: this read consumed nothing
			}
		}
		tag, ok := m.evalBV(DataField_(ev.err, 0))
		if !ok {
			return out, false
		}
		if tag != 0 {
			return out, complete
		}
		switch ev.kind {
		case "byte":
			v, _ := m.evalBV(ev.val)
			out = append(out, byte(v))
		case "uvarint":
			v, _ := m.evalBV(ev.val)
			for v >= 0x80 {
				out = append(out, byte(v)|0x80)
				v >>= 7
			}
			out = append(out, byte(v))
		case "bin":
			var bits uint64
			w := 8
			switch ev.val.S.K {
			case KBool:
				s, _ := m.ms.eval(ev.val)
				if strings.TrimSpace(s) == "true" {
					bits = 1
				}
				w = 1
			case KFP:
				s, _ := m.ms.eval(ev.val)
				bits, _ = parseFP(s)
			case KBV:
				bits, _ = m.evalBV(ev.val)
				w = ev.val.S.W / 8
			default:
				return out, false
			}
			for i := 0; i < w; i++ {
				out = append(out, byte(bits>>(8*uint(i))))
			}
		case "bytes":
			n, _ := m.evalBV(ev.n)
			if n > 4096 {
				return out, false
			}
			for i := uint64(0); i < n; i++ {
				b, _ := m.evalBV(Select(ev.val, BV("bvadd", ev.off, BVLit(i, 64))))
				out = append(out, byte(b))
			}
		}
	}
	return out, complete
}
