package main

// Contract files: comment-only Go files (//go:build verif) named vc_*_verif.go in the
// package directories of /repo. Lines start with "//@". This file parses them and
// generates one synthetic Go source file per package in which every contract is an
// ordinary Go function (type-checked by the real type checker, compiled to SSA by the
// real SSA builder) whose body is:   requires...; old-bindings; the call; ensures...

import (
	"fmt"
	"go/ast"
	"go/parser"
	"go/printer"
	"go/token"
	"os"
	"path/filepath"
	"regexp"
	"sort"
	"strconv"
	"strings"
)

type Clause struct {
	Kind  string // requires ensures invariant decreases
	Expr  string // surface syntax
	Label string
	File  string
	Line  int
}

type LoopSpec struct {
	N      int
	Vars   string // "i int, n int"
	Invs   []Clause
	Decr   *Clause
	Unroll int
}

type Contract struct {
	Kind      string // func | lemma | spec
	Sig       string // signature text after "func"
	Pkg       string // package name (s2)
	PkgPath   string
	Dir       string
	Name      string // Target key: "(CellID).Parent", "(*LaxPolygon).Chain", "sizeIJ"
	RecvName  string
	RecvType  string
	Params    []Param // including receiver first
	Results   []Param
	Requires  []Clause
	Ensures   []Clause
	Modifies  []string
	Ghosts    []Param
	Loops     map[int]*LoopSpec
	Flags     map[string]string // pure, inline, assumed, fp, nopanic-off, ...
	Props     []string
	SpecBody  string // for spec funcs
	File      string
	Line      int
	GenName   string // generated function name
	Disabled  string // reason the contract could not be bound to the current source
	EndLine   int
	Olds      []string
}

type Param struct{ Name, Type string }

var clauseKeywords = map[string]bool{"func": true, "spec": true, "lemma": true, "requires": true, "ensures": true, "modifies": true,
	"pure": true, "inline": true, "assumed": true, "fp": true, "loop": true, "ghost": true, "property": true, "opaque": true,
	"noframe": true, "trusted": true, "deterministic": true, "maxinline": true, "allowpanic": true, "import": true, "intsmath": true, "nocanary": true,
	"havocglobals": true, "readsheap": true, "alloclimit": true, "casesplit": true, "table": true, "inlinecalls": true, "unrollcalls": true, "replay": true, "fpcmp": true, "stream": true, "timeout": true, "thorough": true, "terminates": true, "decreases": true, "absmod": true, "fcomm": true, "remwrap": true, "ifacenonnil": true, "remopaque": true}

type ContractSet struct {
	ByPkg   map[string][]*Contract // pkg dir -> contracts in file order
	Imports map[string][]string
	Source  string // "repo" or "mirror"
	AllocLimits map[string]uint64 // element type -> largest make() length allowed
	AllocLimitProps map[string][]string // the properties whose units the limit applies to (the directive's property tags)
	Tables  map[string][]string   // dir -> package-level integer arrays computed by init(), dumped from the running program
}

func findContractFiles(repo, mirror string) (map[string][]string, string) {
	res := map[string][]string{}
	src := "repo"
	for _, d := range []string{"r1", "r2", "r3", "s1", "s2", "s2/s2intersect"} {
		m, _ := filepath.Glob(filepath.Join(repo, d, "vc_*_verif.go"))
		have := map[string]bool{}
		for _, f := range m {
			have[filepath.Base(f)] = true
		}
		// contract files present only in the mirror (a tree restored without the hook commits) are added
		mm, _ := filepath.Glob(filepath.Join(mirror, d, "vc_*_verif.go"))
		for _, f := range mm {
			if !have[filepath.Base(f)] {
				m = append(m, f)
				src = "repo+mirror"
			}
		}
		sort.Slice(m, func(i, j int) bool { return filepath.Base(m[i]) < filepath.Base(m[j]) })
		if len(m) > 0 {
			res[d] = m
		}
	}
	return res, src
}

func parseContracts(repo, mirror string) (*ContractSet, error) {
	files, src := findContractFiles(repo, mirror)
	cs := &ContractSet{ByPkg: map[string][]*Contract{}, Imports: map[string][]string{}, Source: src, AllocLimits: map[string]uint64{}, Tables: map[string][]string{}}
	for dir, fl := range files {
		for _, f := range fl {
			if err := cs.parseFile(dir, f); err != nil {
				return nil, err
			}
		}
	}
	return cs, nil
}

func (cs *ContractSet) parseFile(dir, file string) error {
	data, err := os.ReadFile(file)
	if err != nil {
		return err
	}
	lines := strings.Split(string(data), "\n")
	var cur *Contract
	var props []string
	type pending struct {
		kw, text string
		line     int
	}
	var items []pending
	pkg := ""
	for i, ln := range lines {
		t := strings.TrimSpace(ln)
		if strings.HasPrefix(t, "package ") {
			pkg = strings.TrimSpace(strings.TrimPrefix(t, "package "))
		}
		if !strings.HasPrefix(t, "//@") {
			continue
		}
		body := strings.TrimSpace(strings.TrimPrefix(t, "//@"))
		if body == "" || strings.HasPrefix(body, "#") {
			continue
		}
		// strip trailing comment introduced by " // "
		if k := strings.Index(body, " // "); k >= 0 {
			body = strings.TrimSpace(body[:k])
		}
		kw := body
		if k := strings.IndexAny(body, " \t("); k >= 0 {
			kw = body[:k]
		}
		kw = strings.TrimSuffix(kw, ":")
		if clauseKeywords[kw] {
			items = append(items, pending{kw, strings.TrimSpace(body[len(kw):]), i + 1})
		} else if len(items) > 0 {
			items[len(items)-1].text += " " + body
		} else {
			return fmt.Errorf("%s:%d: stray contract text", file, i+1)
		}
	}
	lastLine := 0
	finish := func() {
		if cur != nil {
			cur.EndLine = lastLine
			cs.ByPkg[dir] = append(cs.ByPkg[dir], cur)
		}
		cur = nil
	}
	for _, it := range items {
		if it.kw == "func" || it.kw == "lemma" || it.kw == "spec" || it.kw == "property" {
			finish()
		}
		lastLine = it.line
		mk := func(kind string) *Contract {
			return &Contract{Kind: kind, Pkg: pkg, Dir: dir, Loops: map[int]*LoopSpec{}, Flags: map[string]string{}, Props: append([]string{}, props...), File: file, Line: it.line}
		}
		switch it.kw {
		case "property":
			finish()
			props = strings.Fields(it.text)
		case "import":
			cs.Imports[dir] = append(cs.Imports[dir], strings.TrimSpace(it.text))
		case "table":
			cs.Tables[dir] = append(cs.Tables[dir], strings.Fields(it.text)...)
		case "alloclimit":
			f := strings.Fields(it.text)
			if len(f) != 2 {
				return fmt.Errorf("%s:%d: alloclimit wants '<elem type> <count>'", file, it.line)
			}
			n, err := strconv.ParseUint(f[1], 10, 64)
			if err != nil {
				return fmt.Errorf("%s:%d: bad alloclimit count", file, it.line)
			}
			cs.AllocLimits[f[0]] = n
			if cs.AllocLimitProps == nil {
				cs.AllocLimitProps = map[string][]string{}
			}
			cs.AllocLimitProps[f[0]] = append([]string{}, props...)
		case "func":
			finish()
			cur = mk("func")
			cur.Sig = it.text
			if err := cur.parseSig(); err != nil {
				return fmt.Errorf("%s:%d: %v", file, it.line, err)
			}
		case "lemma":
			finish()
			cur = mk("lemma")
			cur.Sig = it.text
			if err := cur.parseSig(); err != nil {
				return fmt.Errorf("%s:%d: %v", file, it.line, err)
			}
		case "spec":
			finish()
			cur = mk("spec")
			txt := strings.TrimSpace(strings.TrimPrefix(strings.TrimSpace(it.text), "func"))
			k := strings.Index(txt, " = ")
			if k < 0 {
				return fmt.Errorf("%s:%d: spec func needs ' = '", file, it.line)
			}
			cur.Sig = strings.TrimSpace(txt[:k])
			cur.SpecBody = strings.TrimSpace(txt[k+3:])
			if err := cur.parseSig(); err != nil {
				return fmt.Errorf("%s:%d: %v", file, it.line, err)
			}
		default:
			if cur == nil {
				return fmt.Errorf("%s:%d: clause outside contract", file, it.line)
			}
			switch it.kw {
			case "requires", "ensures":
				lab, ex := splitLabel(it.text)
				c := Clause{Kind: it.kw, Expr: ex, Label: lab, File: file, Line: it.line}
				if it.kw == "requires" {
					cur.Requires = append(cur.Requires, c)
				} else {
					cur.Ensures = append(cur.Ensures, c)
				}
			case "modifies":
				for _, m := range splitTop(it.text, ',') {
					cur.Modifies = append(cur.Modifies, strings.TrimSpace(m))
				}
				if cur.Flags["modifies"] == "" {
					cur.Flags["modifies"] = "yes"
				}
			case "ghost":
				for _, g := range splitTop(it.text, ',') {
					f := strings.Fields(strings.TrimSpace(g))
					if len(f) != 2 {
						return fmt.Errorf("%s:%d: ghost wants 'name type'", file, it.line)
					}
					cur.Ghosts = append(cur.Ghosts, Param{f[0], f[1]})
				}
			case "loop":
				if err := cur.parseLoop(it.text, file, it.line); err != nil {
					return err
				}
			default:
				cur.Flags[it.kw] = strings.TrimSpace(it.text)
				if cur.Flags[it.kw] == "" {
					cur.Flags[it.kw] = "yes"
				}
			}
		}
	}
	finish()
	return nil
}

var labelRe = regexp.MustCompile(`^\[([A-Za-z0-9_.=+<>!-]+)\]\s*(.*)$`)

func splitLabel(s string) (string, string) {
	s = strings.TrimSpace(s)
	if m := labelRe.FindStringSubmatch(s); m != nil {
		return m[1], m[2]
	}
	return "", s
}

var loopRe = regexp.MustCompile(`^(\d+)\s*(\(([^)]*)\))?\s*:\s*(invariant|decreases!?|unroll)\s+(.*)$`)

func (c *Contract) parseLoop(text, file string, line int) error {
	m := loopRe.FindStringSubmatch(strings.TrimSpace(text))
	if m == nil {
		return fmt.Errorf("%s:%d: bad loop clause %q", file, line, text)
	}
	n, _ := strconv.Atoi(m[1])
	ls := c.Loops[n]
	if ls == nil {
		ls = &LoopSpec{N: n}
		c.Loops[n] = ls
	}
	if m[3] != "" {
		if ls.Vars != "" && ls.Vars != m[3] {
			return fmt.Errorf("%s:%d: loop %d declares different variable lists", file, line, n)
		}
		ls.Vars = m[3]
	}
	switch m[4] {
	case "invariant":
		lab, ex := splitLabel(m[5])
		ls.Invs = append(ls.Invs, Clause{Kind: "invariant", Expr: ex, Label: lab, File: file, Line: line})
	case "decreases", "decreases!":
		ls.Decr = &Clause{Kind: "decreases", Expr: m[5], File: file, Line: line}
		if m[4] == "decreases!" {
			ls.Decr.Label = "!"
		}
	case "unroll":
		k, err := strconv.Atoi(strings.TrimSpace(m[5]))
		if err != nil {
			return fmt.Errorf("%s:%d: bad unroll count", file, line)
		}
		ls.Unroll = k
	}
	return nil
}

func (c *Contract) parseSig() error {
	src := "package p\nfunc " + c.Sig + " {}"
	fset := token.NewFileSet()
	f, err := parser.ParseFile(fset, "sig.go", src, 0)
	if err != nil {
		return fmt.Errorf("cannot parse signature %q: %v", c.Sig, err)
	}
	fd := f.Decls[0].(*ast.FuncDecl)
	ts := func(e ast.Expr) string {
		var sb strings.Builder
		printer.Fprint(&sb, fset, e)
		return sb.String()
	}
	name := fd.Name.Name
	qual := ""
	if fd.Recv != nil && len(fd.Recv.List) == 1 {
		r := fd.Recv.List[0]
		c.RecvType = ts(r.Type)
		if len(r.Names) > 0 {
			c.RecvName = r.Names[0].Name
		} else {
			c.RecvName = "recv"
		}
		c.Params = append(c.Params, Param{c.RecvName, c.RecvType})
		qual = "(" + c.RecvType + ")."
	}
	k := 0
	for _, p := range fd.Type.Params.List {
		t := ts(p.Type)
		if len(p.Names) == 0 {
			c.Params = append(c.Params, Param{fmt.Sprintf("arg%d", k), t})
			k++
		}
		for _, n := range p.Names {
			nm := n.Name
			if nm == "_" {
				nm = fmt.Sprintf("arg%d", k)
			}
			c.Params = append(c.Params, Param{nm, t})
			k++
		}
	}
	if fd.Type.Results != nil {
		var rs []Param
		for _, p := range fd.Type.Results.List {
			t := ts(p.Type)
			if len(p.Names) == 0 {
				rs = append(rs, Param{"", t})
			}
			for _, n := range p.Names {
				rs = append(rs, Param{n.Name, t})
			}
		}
		for i := range rs {
			if rs[i].Name == "" || rs[i].Name == "_" {
				if len(rs) == 1 {
					rs[i].Name = "result"
				} else {
					rs[i].Name = fmt.Sprintf("result%d", i)
				}
			}
		}
		c.Results = rs
	}
	c.Name = qual + name
	return nil
}

// ---- surface syntax rewriting ----

// splitTop splits s at top-level occurrences of sep (outside brackets/strings).
func splitTop(s string, sep byte) []string {
	var parts []string
	depth := 0
	start := 0
	inStr := byte(0)
	for i := 0; i < len(s); i++ {
		ch := s[i]
		if inStr != 0 {
			if ch == '\\' {
				i++
			} else if ch == inStr {
				inStr = 0
			}
			continue
		}
		switch ch {
		case '"', '\'', '`':
			inStr = ch
		case '(', '[', '{':
			depth++
		case ')', ']', '}':
			depth--
		default:
			if ch == sep && depth == 0 {
				parts = append(parts, s[start:i])
				start = i + 1
			}
		}
	}
	parts = append(parts, s[start:])
	return parts
}

// findTop finds the first top-level occurrence of tok in s, or -1.
func findTop(s, tok string) int {
	depth := 0
	inStr := byte(0)
	for i := 0; i < len(s); i++ {
		ch := s[i]
		if inStr != 0 {
			if ch == '\\' {
				i++
			} else if ch == inStr {
				inStr = 0
			}
			continue
		}
		switch ch {
		case '"', '\'', '`':
			inStr = ch
		case '(', '[', '{':
			depth++
		case ')', ']', '}':
			depth--
		}
		if depth == 0 && strings.HasPrefix(s[i:], tok) {
			return i
		}
	}
	return -1
}

var quantRe = regexp.MustCompile(`^(forall|exists)\s+([^:]+?)\s*::\s*`)

// rewriteSpec turns the surface syntax (==>, <==>, forall/exists x T :: body, old(e)) into plain Go.
// olds collects hoisted old-expressions (already rewritten); each old(e) becomes vcOld<k>.
func rewriteSpec(s string, olds *[]string) (string, error) {
	s = strings.TrimSpace(s)
	// <==> lowest, then ==> (right assoc)
	if k := findTop(s, "<==>"); k >= 0 {
		a, err := rewriteSpec(s[:k], olds)
		if err != nil {
			return "", err
		}
		b, err := rewriteSpec(s[k+4:], olds)
		if err != nil {
			return "", err
		}
		return "((" + a + ") == (" + b + "))", nil
	}
	if m := quantRe.FindStringSubmatch(s); m != nil && findTopBefore(s, "==>", len(m[0])) < 0 {
		// quantifier extends as far as possible
		body, err := rewriteSpec(s[len(m[0]):], olds)
		if err != nil {
			return "", err
		}
		decl := strings.TrimSpace(m[2]) // "i, j int" or "k int"
		f := strings.Fields(decl)
		if len(f) < 2 {
			return "", fmt.Errorf("bad quantifier binder %q", decl)
		}
		typ := f[len(f)-1]
		names := strings.Split(strings.Join(f[:len(f)-1], ""), ",")
		fn := "vcForall"
		if m[1] == "exists" {
			fn = "vcExists"
		}
		out := body
		for i := len(names) - 1; i >= 0; i-- {
			out = fmt.Sprintf("%s(func(%s %s) bool { return %s })", fn, strings.TrimSpace(names[i]), typ, out)
		}
		return out, nil
	}
	if k := findTop(s, "==>"); k >= 0 {
		a, err := rewriteSpec(s[:k], olds)
		if err != nil {
			return "", err
		}
		b, err := rewriteSpec(s[k+3:], olds)
		if err != nil {
			return "", err
		}
		return "(!(" + a + ") || (" + b + "))", nil
	}
	// || and && at top level: recurse into operands so nested quantifiers / implications in parens are handled
	for _, op := range []string{"||", "&&"} {
		if k := findTop(s, op); k >= 0 {
			parts := splitTopStr(s, op)
			var outs []string
			for _, p := range parts {
				r, err := rewriteSpec(p, olds)
				if err != nil {
					return "", err
				}
				outs = append(outs, r)
			}
			return strings.Join(outs, " "+op+" "), nil
		}
	}
	// no top-level logical operator: descend into bracketed groups
	var out strings.Builder
	i := 0
	for i < len(s) {
		ch := s[i]
		if ch == '"' || ch == '\'' || ch == '`' {
			j := i + 1
			for j < len(s) && s[j] != ch {
				if s[j] == '\\' {
					j++
				}
				j++
			}
			out.WriteString(s[i:min(j+1, len(s))])
			i = j + 1
			continue
		}
		if ch == '(' || ch == '[' {
			close := matchBracket(s, i)
			if close < 0 {
				return "", fmt.Errorf("unbalanced brackets in %q", s)
			}
			inner := s[i+1 : close]
			// old(e)?
			if ch == '(' && olds != nil && strings.HasSuffix(out.String(), "old") && !isIdentChar(prevChar(out.String(), 3)) {
				r, err := rewriteSpec(inner, nil)
				if err != nil {
					return "", err
				}
				cur := out.String()
				out.Reset()
				out.WriteString(cur[:len(cur)-3])
				name := fmt.Sprintf("vcOld%d", len(*olds))
				*olds = append(*olds, r)
				out.WriteString(name)
				i = close + 1
				continue
			}
			// argument lists: rewrite each comma-separated part
			parts := splitTop(inner, ',')
			var rs []string
			for _, p := range parts {
				if strings.TrimSpace(p) == "" {
					rs = append(rs, p)
					continue
				}
				// slices like a[i:j]
				if ch == '[' && findTop(p, ":") >= 0 && findTop(p, "::") < 0 {
					sp := splitTop(p, ':')
					var rr []string
					for _, q := range sp {
						if strings.TrimSpace(q) == "" {
							rr = append(rr, q)
							continue
						}
						r, err := rewriteSpec(q, olds)
						if err != nil {
							return "", err
						}
						rr = append(rr, r)
					}
					rs = append(rs, strings.Join(rr, ":"))
					continue
				}
				r, err := rewriteSpec(p, olds)
				if err != nil {
					return "", err
				}
				rs = append(rs, r)
			}
			out.WriteByte(ch)
			out.WriteString(strings.Join(rs, ", "))
			out.WriteByte(s[close])
			i = close + 1
			continue
		}
		out.WriteByte(ch)
		i++
	}
	return out.String(), nil
}

func findTopBefore(s, tok string, limit int) int {
	k := findTop(s, tok)
	if k >= 0 && k < limit {
		return k
	}
	return -1
}

func splitTopStr(s, op string) []string {
	var parts []string
	for {
		k := findTop(s, op)
		if k < 0 {
			parts = append(parts, s)
			return parts
		}
		parts = append(parts, s[:k])
		s = s[k+len(op):]
	}
}

func matchBracket(s string, i int) int {
	depth := 0
	inStr := byte(0)
	for j := i; j < len(s); j++ {
		ch := s[j]
		if inStr != 0 {
			if ch == '\\' {
				j++
			} else if ch == inStr {
				inStr = 0
			}
			continue
		}
		switch ch {
		case '"', '\'', '`':
			inStr = ch
		case '(', '[', '{':
			depth++
		case ')', ']', '}':
			depth--
			if depth == 0 {
				return j
			}
		}
	}
	return -1
}

func isIdentChar(c byte) bool {
	return c == '_' || c == '.' || (c >= 'a' && c <= 'z') || (c >= 'A' && c <= 'Z') || (c >= '0' && c <= '9')
}
func prevChar(s string, back int) byte {
	if len(s) <= back {
		return ' '
	}
	return s[len(s)-back-1]
}

// ---- Go generation ----

func genIdent(s string) string {
	var b strings.Builder
	for _, c := range s {
		switch {
		case c >= 'a' && c <= 'z', c >= 'A' && c <= 'Z', c >= '0' && c <= '9':
			b.WriteRune(c)
		case c == '*':
			b.WriteString("P")
		default:
			b.WriteRune('_')
		}
	}
	return b.String()
}

const specPrelude = `
func vcRequires(b bool) {}
func vcEnsures(b bool, label string) {}
func vcInvariant(b bool, label string) {}
func vcDecreases(x int) {}
func vcForall[T any](f func(T) bool) bool { return true }
func vcExists[T any](f func(T) bool) bool { return true }
func vcArr[T any](s []T) uint64 { return 0 }
func vcOff[T any](s []T) int { return 0 }
func vcAllocated[T any](s []T) bool { return true }
func vcPreElem[T any](s []T, k int) T { var z T; return z }
func vcFresh[T any](p *T) bool { return true }
func vcFreshSlice[T any](s []T) bool { return true }
func vcUnchanged[T any](p *T) bool { return true }
func vcHavoc[T any]() (r T) { return }
func vcIsNaN(x float64) bool { return x != x }
func vcBits(x float64) uint64 { return 0 }
func vcNonNilErr(e error) bool { return e != nil }
func vcTypeIs[T any](x any) bool { _, ok := x.(T); return ok }
func vcMod[T any](p *T) {}
func vcModElems[T any](s []T) {}
func vcModObj[T any](p *T) {}
func vcModMap[K comparable, V any](m map[K]V) {}
func vcLen[T any](s []T) int { return len(s) }
func vcSame[T any](a, b T) bool { return true }
func vcIf[T any](c bool, a, b T) T { if c { return a }; return b }
func vcFirst[A, B any](a A, b B) A { return a }
func vcSecond[A, B any](a A, b B) B { return b }
func vcMapHas[K comparable, V any](m map[K]V, k K) bool { _, ok := m[k]; return ok }
func vcHeld[T any](mu *T) bool { return false }
func vcOldGet[T any](k int, witness T) T { return witness }
func vcOldBind[T any](k int, x T) {}
func vcErrorRaised() bool { return false }
`

// generate returns the synthetic Go file for one package directory.
func (cs *ContractSet) generate(dir string) (string, error) {
	cl := cs.ByPkg[dir]
	if len(cl) == 0 {
		return "", nil
	}
	var b strings.Builder
	b.WriteString(specPrelude)
	for idx, c := range cl {
		if err := c.gen(&b, idx); err != nil {
			return "", fmt.Errorf("%s:%d: %v", c.File, c.Line, err)
		}
	}
	body := b.String()
	var hdr strings.Builder
	fmt.Fprintf(&hdr, "package %s\n\n", cl[0].Pkg)
	imps := map[string]bool{}
	for _, im := range cs.Imports[dir] {
		imps[im] = true
	}
	var l []string
	for im := range imps {
		// keep only imports whose package name is used in the generated text
		path := strings.Trim(im, "\"")
		name := path[strings.LastIndex(path, "/")+1:]
		if f := strings.Fields(im); len(f) == 2 {
			name = f[0]
		}
		if strings.Contains(body, name+".") {
			l = append(l, im)
		}
	}
	sort.Strings(l)
	if len(l) > 0 {
		hdr.WriteString("import (\n")
		for _, im := range l {
			fmt.Fprintf(&hdr, "\t%s\n", im)
		}
		hdr.WriteString(")\n")
	}
	return hdr.String() + body, nil
}

func paramList(ps []Param) string {
	var l []string
	for _, p := range ps {
		t := p.Type
		if strings.HasPrefix(t, "...") {
			t = "[]" + t[3:]
		}
		l = append(l, p.Name+" "+t)
	}
	return strings.Join(l, ", ")
}

func lineDirective(b *strings.Builder, cl Clause) {
	fmt.Fprintf(b, "//line %s:%d\n", cl.File, cl.Line)
}

func (c *Contract) gen(b *strings.Builder, idx int) error {
	base := fmt.Sprintf("vc_%d_%s", idx, genIdent(c.Name))
	c.GenName = base
	if c.Disabled != "" {
		return nil
	}
	switch c.Kind {
	case "spec":
		body, err := rewriteSpec(c.SpecBody, nil)
		if err != nil {
			return err
		}
		res := ""
		if len(c.Results) > 0 {
			res = c.Results[0].Type
		}
		fmt.Fprintf(b, "//line %s:%d\nfunc %s(%s) %s { return %s }\n\n", c.File, c.Line, c.Name, paramList(c.Params), res, body)
		c.GenName = c.Name
		if d := c.Flags["decreases"]; d != "" {
			// recursive spec function: its termination measure
			m, err := rewriteSpec(d, nil)
			if err != nil {
				return err
			}
			fmt.Fprintf(b, "//line %s:%d\nfunc %s_vcmeasure(%s) int { return int(%s) }\n\n", c.File, c.Line, c.Name, paramList(c.Params), m)
		}
		return nil
	case "lemma", "func":
		var pre, post strings.Builder
		var olds []string
		for _, r := range c.Requires {
			e, err := rewriteSpec(r.Expr, nil)
			if err != nil {
				return err
			}
			lineDirective(&pre, r)
			fmt.Fprintf(&pre, "\tvcRequires(%s)\n", e)
		}
		for i, r := range c.Ensures {
			e, err := rewriteSpec(r.Expr, &olds)
			if err != nil {
				return err
			}
			lab := r.Label
			if lab == "" {
				lab = fmt.Sprintf("%d", i+1)
			}
			lineDirective(&post, r)
			fmt.Fprintf(&post, "\tvcEnsures(%s, %q)\n", e, lab)
		}
		c.Olds = olds
		all := append(append([]Param{}, c.Params...), c.Ghosts...)
		fmt.Fprintf(b, "func %s(%s) {\n", base, paramList(all))
		b.WriteString(pre.String())
		for i, o := range olds {
			fmt.Fprintf(b, "\tvcOld%d := %s\n\t_ = vcOld%d\n", i, o, i)
		}
		if c.Kind == "func" {
			call := ""
			var args []string
			start := 0
			if c.RecvType != "" {
				call = c.RecvName + "."
				start = 1
			}
			for _, p := range c.Params[start:] {
				a := p.Name
				if strings.HasPrefix(p.Type, "...") {
					a += "..."
				}
				args = append(args, a)
			}
			fname := c.Name
			if c.RecvType != "" {
				fname = c.Name[strings.LastIndex(c.Name, ").")+2:]
			}
			call += fname + "(" + strings.Join(args, ", ") + ")"
			fmt.Fprintf(b, "//line %s:%d\n", c.File, c.Line)
			if len(c.Results) > 0 {
				var rn []string
				for _, r := range c.Results {
					rn = append(rn, r.Name)
				}
				fmt.Fprintf(b, "\t%s := %s\n", strings.Join(rn, ", "), call)
				for _, r := range rn {
					fmt.Fprintf(b, "\t_ = %s\n", r)
				}
			} else {
				fmt.Fprintf(b, "\t%s\n", call)
			}
		}
		b.WriteString(post.String())
		b.WriteString("}\n\n")
		// modifies: generated as a function whose body evaluates the addresses
		if len(c.Modifies) > 0 {
			fmt.Fprintf(b, "func %s_modifies(%s) {\n", base, paramList(all))
			for _, m := range c.Modifies {
				m = strings.TrimSpace(m)
				if m == "nothing" || m == "" {
					continue
				}
				if strings.HasSuffix(m, "{*}") {
					fmt.Fprintf(b, "\tvcModMap(%s)\n", strings.TrimSuffix(m, "{*}"))
				} else if strings.HasSuffix(m, "[*]") {
					fmt.Fprintf(b, "\tvcModElems(%s)\n", strings.TrimSuffix(m, "[*]"))
				} else if strings.HasPrefix(m, "*") {
					fmt.Fprintf(b, "\tvcModObj(%s)\n", strings.TrimPrefix(m, "*"))
				} else {
					fmt.Fprintf(b, "\tvcMod(&%s)\n", m)
				}
			}
			b.WriteString("}\n\n")
		}
		// loops
		var ns []int
		for n := range c.Loops {
			ns = append(ns, n)
		}
		sort.Ints(ns)
		for _, n := range ns {
			ls := c.Loops[n]
			if len(ls.Invs) == 0 && ls.Decr == nil {
				continue
			}
			// loop variables shadow parameters of the same name
			lv := parseVarList(ls.Vars)
			shadow := map[string]bool{}
			for _, v := range lv {
				shadow[v.Name] = true
			}
			var ps []Param
			for _, p := range all {
				if shadow[p.Name] {
					ps = append(ps, Param{"old_" + p.Name, p.Type})
				} else {
					ps = append(ps, p)
				}
			}
			ps = append(ps, lv...)
			var lolds []string
			var lbody strings.Builder
			for i, inv := range ls.Invs {
				e, err := rewriteSpec(inv.Expr, &lolds)
				if err != nil {
					return err
				}
				e = strings.ReplaceAll(e, "vcOld", "vcLOld")
				lab := inv.Label
				if lab == "" {
					lab = fmt.Sprintf("%d", i+1)
				}
				lineDirective(&lbody, inv)
				fmt.Fprintf(&lbody, "\tvcInvariant(%s, %q)\n", e, lab)
			}
			if ls.Decr != nil {
				e, err := rewriteSpec(ls.Decr.Expr, nil)
				if err != nil {
					return err
				}
				lineDirective(&lbody, *ls.Decr)
				fmt.Fprintf(&lbody, "\tvcDecreases(int(%s))\n", e)
			}
			fmt.Fprintf(b, "func %s_loop%d(%s) {\n", base, n, paramList(ps))
			for k, o := range lolds {
				fmt.Fprintf(b, "\tvcLOld%d := vcOldGet(%d, %s)\n\t_ = vcLOld%d\n", k, k, o, k)
			}
			b.WriteString(lbody.String())
			b.WriteString("}\n\n")
			if len(lolds) > 0 {
				// old-expressions of the invariants, evaluated in the function's entry state (parameters only)
				fmt.Fprintf(b, "func %s_loop%d_olds(%s) {\n", base, n, paramList(all))
				for k, o := range lolds {
					fmt.Fprintf(b, "\tvcOldBind(%d, %s)\n", k, o)
				}
				b.WriteString("}\n\n")
			}
		}
	}
	return nil
}

func parseVarList(s string) []Param {
	var out []Param
	for _, p := range splitTop(s, ',') {
		f := strings.Fields(strings.TrimSpace(p))
		if len(f) == 2 {
			out = append(out, Param{f[0], f[1]})
		}
	}
	return out
}
