package main

// Quantifier elimination by skolemisation and index-term instantiation (DESIGN 2.2):
// goals: forall -> fresh constants; hypotheses: forall -> conjunction of instances at the
// index terms occurring in the VC. Sound in both directions of use (goal made no weaker,
// hypotheses made no stronger). Quantifiers in positions of mixed polarity are left to the solver.

import "sort"

type qctx struct {
	memo map[[2]interface{}]*Term
}

// elimQuant rewrites t. goalCtx=true: result must imply t (stronger or equal).
// goalCtx=false: t must imply result (weaker or equal).
func (q *qctx) skolem(t *Term, goalCtx bool) *Term {
	if t.S.K != KBool || t.Lit || t.Var || t.Bound {
		return t
	}
	if !containsQuant(t) {
		return t
	}
	if t.Quant != "" {
		n := len(t.Args)
		vars := t.Args[:n-1]
		body := t.Args[n-1]
		if (t.Quant == "forall" && goalCtx) || (t.Quant == "exists" && !goalCtx) {
			sub := map[*Term]*Term{}
			for _, v := range vars {
				sub[v] = FreshVar("sk_"+v.Op, v.S)
			}
			return q.skolem(substitute(body, sub), goalCtx)
		}
		// keep, but process the body (nested quantifiers of the other kind)
		nb := q.skolemUnder(body, goalCtx)
		if nb == body {
			return t
		}
		if t.Quant == "forall" {
			return Forall(vars, nb)
		}
		return Exists(vars, nb)
	}
	switch t.Op {
	case "and":
		return And(q.mapArgs(t.Args, goalCtx)...)
	case "or":
		return Or(q.mapArgs(t.Args, goalCtx)...)
	case "not":
		return Not(q.skolem(t.Args[0], !goalCtx))
	case "=>":
		return Implies(q.skolem(t.Args[0], !goalCtx), q.skolem(t.Args[1], goalCtx))
	case "ite":
		if !containsQuant(t.Args[0]) {
			return Ite(t.Args[0], q.skolem(t.Args[1], goalCtx), q.skolem(t.Args[2], goalCtx))
		}
	}
	if t.Def != nil {
		return q.skolem(t.Def, goalCtx)
	}
	return t
}

// skolemUnder: inside a kept quantifier nothing can be skolemised with constants (would need functions).
func (q *qctx) skolemUnder(t *Term, goalCtx bool) *Term { return t }

func (q *qctx) mapArgs(as []*Term, goalCtx bool) []*Term {
	out := make([]*Term, len(as))
	for i, a := range as {
		out[i] = q.skolem(a, goalCtx)
	}
	return out
}

var quantCache = map[*Term]bool{}

func containsQuant(t *Term) bool {
	if t.Quant != "" {
		return true
	}
	if t.Lit || t.Var || t.Bound {
		return false
	}
	if v, ok := quantCache[t]; ok {
		return v
	}
	r := false
	if t.Def != nil {
		r = containsQuant(t.Def)
	} else {
		for _, a := range t.Args {
			if containsQuant(a) {
				r = true
				break
			}
		}
	}
	quantCache[t] = r
	return r
}

func substitute(t *Term, sub map[*Term]*Term) *Term {
	memo := map[*Term]*Term{}
	var rec func(t *Term) *Term
	rec = func(t *Term) *Term {
		if r, ok := sub[t]; ok {
			return r
		}
		if t.Lit || t.Var || len(t.Args) == 0 {
			if t.Def != nil && hasBound(t.Def) {
				return rec(t.Def)
			}
			return t
		}
		if !hasBound(t) {
			return t
		}
		if r, ok := memo[t]; ok {
			return r
		}
		args := make([]*Term, len(t.Args))
		changed := false
		for i, a := range t.Args {
			args[i] = rec(a)
			if args[i] != a {
				changed = true
			}
		}
		var r *Term
		if !changed {
			r = t
		} else {
			r = rebuild(t, args)
		}
		memo[t] = r
		return r
	}
	return rec(t)
}

// rebuild re-applies t's operator to new arguments through the simplifying constructors.
func rebuild(t *Term, args []*Term) *Term {
	switch {
	case t.Quant == "forall":
		n := len(args)
		return Forall(args[:n-1], args[n-1])
	case t.Quant == "exists":
		n := len(args)
		return Exists(args[:n-1], args[n-1])
	case t.UF != nil:
		return UFApp(t.UF.Name, t.UF.Res, args...)
	}
	switch t.Op {
	case "and":
		return And(args...)
	case "or":
		return Or(args...)
	case "not":
		return Not(args[0])
	case "=>":
		return Implies(args[0], args[1])
	case "ite":
		return Ite(args[0], args[1], args[2])
	case "=":
		return Eq(args[0], args[1])
	case "select":
		return Select(args[0], args[1])
	case "store":
		return Store(args[0], args[1], args[2])
	case "bvadd", "bvsub", "bvmul", "bvand", "bvor":
		return BV(t.Op, args[0], args[1])
	case "bvult", "bvule", "bvugt", "bvuge", "bvslt", "bvsle", "bvsgt", "bvsge":
		return BVCmp(t.Op, args[0], args[1])
	}
	if t.S.K == KData && t.Op == t.S.Data.Ctor {
		return MkData(t.S, args...)
	}
	if len(args) == 1 && args[0].S.K == KData {
		for i, f := range args[0].S.Data.Fields {
			if f.Name == t.Op {
				return DataField_(args[0], i)
			}
		}
	}
	return newTerm(t.Op, t.S, args...)
}

// ---- instantiation ----

type indexUse struct {
	arr, idx *Term
}

// collectGroundSelects gathers (array, index) pairs of ground select terms.
func collectGroundSelects(roots []*Term) []indexUse {
	seen := map[*Term]bool{}
	var out []indexUse
	var rec func(t *Term)
	rec = func(t *Term) {
		if seen[t] || t.Lit {
			return
		}
		seen[t] = true
		if t.Def != nil {
			rec(t.Def)
			return
		}
		if t.Quant != "" {
			// ground subterms inside quantifier bodies also count
			rec(t.Args[len(t.Args)-1])
			return
		}
		if t.Op == "select" && len(t.Args) == 2 && !hasBound(t) {
			out = append(out, indexUse{t.Args[0], t.Args[1]})
		}
		for _, a := range t.Args {
			rec(a)
		}
	}
	for _, r := range roots {
		rec(r)
	}
	return out
}

// patternsOf finds, for each bound variable, the select patterns select(A, E(q)) in body where
// A is ground and E(q) is q or q+g / g+q with g ground.
type qpattern struct {
	arr  *Term // ground array
	off  *Term // ground offset or nil
	v    *Term
}

func patternsOf(body *Term, vars []*Term) []qpattern {
	isVar := map[*Term]bool{}
	for _, v := range vars {
		isVar[v] = true
	}
	seen := map[*Term]bool{}
	var out []qpattern
	var rec func(t *Term)
	rec = func(t *Term) {
		if seen[t] || t.Lit || t.Var || !hasBound(t) {
			return
		}
		seen[t] = true
		if t.Op == "select" && len(t.Args) == 2 && !hasBound(t.Args[0]) {
			ix := t.Args[1]
			if isVar[ix] {
				out = append(out, qpattern{arr: t.Args[0], v: ix})
			} else if ix.Op == "bvadd" && len(ix.Args) == 2 {
				a, b := ix.Args[0], ix.Args[1]
				if isVar[a] && !hasBound(b) {
					out = append(out, qpattern{arr: t.Args[0], off: b, v: a})
				} else if isVar[b] && !hasBound(a) {
					out = append(out, qpattern{arr: t.Args[0], off: a, v: b})
				} else if b.Op == "bvadd" && len(b.Args) == 2 && !hasBound(a) {
					// off + (q + k)
					if isVar[b.Args[0]] && !hasBound(b.Args[1]) {
						out = append(out, qpattern{arr: t.Args[0], off: BV("bvadd", a, b.Args[1]), v: b.Args[0]})
					}
				}
			}
		}
		for _, a := range t.Args {
			rec(a)
		}
		if t.Def != nil {
			rec(t.Def)
		}
	}
	rec(body)
	return out
}

func minusOff(idx, off *Term) *Term {
	if off == nil {
		return idx
	}
	if idx.Op == "bvadd" && len(idx.Args) == 2 {
		if idx.Args[0] == off {
			return idx.Args[1]
		}
		if idx.Args[1] == off {
			return idx.Args[0]
		}
	}
	if idx == off {
		return BVLit(0, idx.S.W)
	}
	return BV("bvsub", idx, off)
}

const maxInstances = 400

// instantiate replaces hypothesis-context foralls in t by instances. Returns ok=false if some
// quantifier had no usable pattern (then it is left in place).
func (q *qctx) instantiate(t *Term, goalCtx bool, uses []indexUse, extra map[*Sort][]*Term) *Term {
	if t.S.K != KBool || t.Lit || t.Var || t.Bound || !containsQuant(t) {
		return t
	}
	if t.Quant != "" {
		n := len(t.Args)
		vars := t.Args[:n-1]
		body := t.Args[n-1]
		if (t.Quant == "forall" && !goalCtx) || (t.Quant == "exists" && goalCtx) {
			pats := patternsOf(body, vars)
			cands := map[*Term][]*Term{}
			for _, v := range vars {
				set := map[*Term]bool{}
				for _, p := range pats {
					if p.v != v {
						continue
					}
					for _, u := range uses {
						if u.arr == p.arr {
							set[minusOff(u.idx, p.off)] = true
						}
					}
				}
				for _, e := range extra[v.S] {
					set[e] = true
				}
				var l []*Term
				for c := range set {
					l = append(l, c)
				}
				sort.Slice(l, func(i, j int) bool { return l[i].ID < l[j].ID })
				cands[v] = l
			}
			total := 1
			for _, v := range vars {
				if len(cands[v]) == 0 {
					return t // no pattern: leave to the solver
				}
				total *= len(cands[v])
				if total > maxInstances {
					return t
				}
			}
			var insts []*Term
			var gen func(i int, sub map[*Term]*Term)
			gen = func(i int, sub map[*Term]*Term) {
				if i == len(vars) {
					cp := map[*Term]*Term{}
					for k, v := range sub {
						cp[k] = v
					}
					inst := substitute(body, cp)
					inst = q.instantiate(inst, goalCtx, uses, extra)
					insts = append(insts, inst)
					return
				}
				for _, c := range cands[vars[i]] {
					sub[vars[i]] = c
					gen(i+1, sub)
				}
			}
			gen(0, map[*Term]*Term{})
			if t.Quant == "forall" {
				return And(insts...)
			}
			return Or(insts...)
		}
		return t
	}
	switch t.Op {
	case "and":
		out := make([]*Term, len(t.Args))
		for i, a := range t.Args {
			out[i] = q.instantiate(a, goalCtx, uses, extra)
		}
		return And(out...)
	case "or":
		out := make([]*Term, len(t.Args))
		for i, a := range t.Args {
			out[i] = q.instantiate(a, goalCtx, uses, extra)
		}
		return Or(out...)
	case "not":
		return Not(q.instantiate(t.Args[0], !goalCtx, uses, extra))
	case "=>":
		return Implies(q.instantiate(t.Args[0], !goalCtx, uses, extra), q.instantiate(t.Args[1], goalCtx, uses, extra))
	case "ite":
		if !containsQuant(t.Args[0]) {
			return Ite(t.Args[0], q.instantiate(t.Args[1], goalCtx, uses, extra), q.instantiate(t.Args[2], goalCtx, uses, extra))
		}
	}
	if t.Def != nil {
		return q.instantiate(t.Def, goalCtx, uses, extra)
	}
	return t
}

// resolveDefs replaces every post-hoc defined variable by its definition (canonical terms).
var defMemo = map[*Term]*Term{}

func resolveDefs(t *Term) *Term {
	if t.Lit || t.Bound {
		return t
	}
	if r, ok := defMemo[t]; ok {
		return r
	}
	var r *Term
	switch {
	case t.Def != nil:
		r = resolveDefs(t.Def)
	case len(t.Args) == 0:
		r = t
	default:
		args := make([]*Term, len(t.Args))
		changed := false
		for i, a := range t.Args {
			args[i] = resolveDefs(a)
			if args[i] != a {
				changed = true
			}
		}
		if changed {
			r = rebuild(t, args)
		} else {
			r = t
		}
	}
	defMemo[t] = r
	return r
}

// prepareVC eliminates quantifiers from assumptions and goal where possible.
// Returns the definition-resolved VC and, when quantifiers were instantiated, the instantiated variant.
func prepareVC(assumes0 []*Term, goal0 *Term) ([]*Term, *Term, []*Term, *Term) {
	defMemo = map[*Term]*Term{}
	assumes := make([]*Term, len(assumes0))
	for i, a := range assumes0 {
		assumes[i] = resolveDefs(a)
	}
	goal := resolveDefs(goal0)
	ia, ig := prepareVCq(assumes, goal)
	return assumes, goal, ia, ig
}

func prepareVCq(assumes []*Term, goal *Term) ([]*Term, *Term) {
	any := containsQuant(goal)
	for _, a := range assumes {
		if containsQuant(a) {
			any = true
			break
		}
	}
	if !any {
		return nil, nil
	}
	q := &qctx{}
	g := q.skolem(goal, true)
	as := make([]*Term, len(assumes))
	for i, a := range assumes {
		as[i] = q.skolem(a, false)
	}
	for round := 0; round < 2; round++ {
		roots := append(append([]*Term{}, as...), g)
		uses := collectGroundSelects(roots)
		changed := false
		ng := q.instantiate(g, true, uses, nil)
		if ng != g {
			changed = true
			g = ng
		}
		for i, a := range as {
			na := q.instantiate(a, false, uses, nil)
			if na != a {
				changed = true
				as[i] = na
			}
		}
		if !changed {
			break
		}
	}
	return as, g
}
