package main

// Quantifier elimination by skolemisation and index-term instantiation (DESIGN 2.2):
// goals: forall -> fresh constants; hypotheses: forall -> conjunction of instances at the
// index terms occurring in the VC. Sound in both directions of use (goal made no weaker,
// hypotheses made no stronger). Quantifiers in positions of mixed polarity are left to the solver.

import (
	"fmt"
	"sort"
	"strings"
)

type qctx struct {
	memo     map[[2]interface{}]*Term
	goalIdx  map[*Term]bool // index terms occurring in the goal (preferred instantiation candidates)
	ufArgs   map[string]map[*Term]bool // ground terms occurring at argument position k of uninterpreted function f, keyed f#k
}

// goalRank: 0 for candidates that occur as index terms of the goal, 1 otherwise.
func (q *qctx) goalRank(t *Term) int {
	if q.goalIdx[t] {
		return 0
	}
	return 1
}

func intRoot(n, k int) int {
	r := 1
	for {
		p := 1
		for i := 0; i < k; i++ {
			p *= (r + 1)
		}
		if p > n {
			return r
		}
		r++
	}
}

// elimQuant rewrites t. goalCtx=true: result must imply t (stronger or equal).
// goalCtx=false: t must imply result (weaker or equal).
func (q *qctx) skolem(t *Term, goalCtx bool) *Term {
	if t.S.K != KBool || t.Lit || t.Var || t.Bound {
		return t
	}
	if !containsQuant(t) {
		return t
	}
	if t.Quant != "" {
		n := len(t.Args)
		vars := t.Args[:n-1]
		body := t.Args[n-1]
		if (t.Quant == "forall" && goalCtx) || (t.Quant == "exists" && !goalCtx) {
			sub := map[*Term]*Term{}
			for _, v := range vars {
				sub[v] = FreshVar("sk_"+v.Op, v.S)
			}
			return q.skolem(substitute(body, sub), goalCtx)
		}
		// keep, but process the body (nested quantifiers of the other kind become Skolem functions of the kept variables)
		nb := q.skolemUnder(body, goalCtx, vars)
		if nb == body {
			return t
		}
		if t.Quant == "forall" {
			return Forall(vars, nb)
		}
		return Exists(vars, nb)
	}
	switch t.Op {
	case "and":
		return And(q.mapArgs(t.Args, goalCtx)...)
	case "or":
		return Or(q.mapArgs(t.Args, goalCtx)...)
	case "not":
		return Not(q.skolem(t.Args[0], !goalCtx))
	case "=>":
		return Implies(q.skolem(t.Args[0], !goalCtx), q.skolem(t.Args[1], goalCtx))
	case "ite":
		if !containsQuant(t.Args[0]) {
			return Ite(t.Args[0], q.skolem(t.Args[1], goalCtx), q.skolem(t.Args[2], goalCtx))
		}
	}
	if t.Def != nil {
		return q.skolem(t.Def, goalCtx)
	}
	return t
}

// skolemUnder: inside a kept quantifier over outer, a quantifier of the skolemisable kind is replaced by
// Skolem functions of the outer variables (only through and/or/not/=>/ite structure).
func (q *qctx) skolemUnder(t *Term, goalCtx bool, outer []*Term) *Term {
	if t.S.K != KBool || t.Lit || t.Var || t.Bound || !containsQuant(t) {
		return t
	}
	if t.Quant != "" {
		n := len(t.Args)
		vars := t.Args[:n-1]
		body := t.Args[n-1]
		if (t.Quant == "forall" && goalCtx) || (t.Quant == "exists" && !goalCtx) {
			sub := map[*Term]*Term{}
			for _, v := range vars {
				skolemCounter++
				sub[v] = UFApp(fmt.Sprintf("skf%d_%s", skolemCounter, v.Op), v.S, outer...)
			}
			return q.skolemUnder(substitute(body, sub), goalCtx, outer)
		}
		nb := q.skolemUnder(body, goalCtx, append(append([]*Term{}, outer...), vars...))
		if nb == body {
			return t
		}
		if t.Quant == "forall" {
			return Forall(vars, nb)
		}
		return Exists(vars, nb)
	}
	switch t.Op {
	case "and", "or":
		out := make([]*Term, len(t.Args))
		for i, a := range t.Args {
			out[i] = q.skolemUnder(a, goalCtx, outer)
		}
		if t.Op == "and" {
			return And(out...)
		}
		return Or(out...)
	case "not":
		return Not(q.skolemUnder(t.Args[0], !goalCtx, outer))
	case "=>":
		return Implies(q.skolemUnder(t.Args[0], !goalCtx, outer), q.skolemUnder(t.Args[1], goalCtx, outer))
	case "ite":
		if !containsQuant(t.Args[0]) {
			return Ite(t.Args[0], q.skolemUnder(t.Args[1], goalCtx, outer), q.skolemUnder(t.Args[2], goalCtx, outer))
		}
	}
	return t
}

var skolemCounter int

func (q *qctx) mapArgs(as []*Term, goalCtx bool) []*Term {
	out := make([]*Term, len(as))
	for i, a := range as {
		out[i] = q.skolem(a, goalCtx)
	}
	return out
}

var quantCache = map[*Term]bool{}

func containsQuant(t *Term) bool {
	if t.Quant != "" {
		return true
	}
	if t.Lit || t.Var || t.Bound {
		return false
	}
	if v, ok := quantCache[t]; ok {
		return v
	}
	r := false
	if t.Def != nil {
		r = containsQuant(t.Def)
	} else {
		for _, a := range t.Args {
			if containsQuant(a) {
				r = true
				break
			}
		}
	}
	quantCache[t] = r
	return r
}

func substitute(t *Term, sub map[*Term]*Term) *Term {
	memo := map[*Term]*Term{}
	var rec func(t *Term) *Term
	rec = func(t *Term) *Term {
		if r, ok := sub[t]; ok {
			return r
		}
		if t.Lit || t.Var || len(t.Args) == 0 {
			if t.Def != nil && hasBound(t.Def) {
				return rec(t.Def)
			}
			return t
		}
		if !hasBound(t) {
			return t
		}
		if r, ok := memo[t]; ok {
			return r
		}
		args := make([]*Term, len(t.Args))
		changed := false
		for i, a := range t.Args {
			args[i] = rec(a)
			if args[i] != a {
				changed = true
			}
		}
		var r *Term
		if !changed {
			r = t
		} else {
			r = rebuild(t, args)
		}
		memo[t] = r
		return r
	}
	return rec(t)
}

// rebuild re-applies t's operator to new arguments through the simplifying constructors.
func rebuild(t *Term, args []*Term) *Term {
	switch {
	case t.Quant == "forall":
		n := len(args)
		return Forall(args[:n-1], args[n-1])
	case t.Quant == "exists":
		n := len(args)
		return Exists(args[:n-1], args[n-1])
	case t.UF != nil:
		return UFApp(t.UF.Name, t.UF.Res, args...)
	}
	switch t.Op {
	case "and":
		return And(args...)
	case "or":
		return Or(args...)
	case "not":
		return Not(args[0])
	case "=>":
		return Implies(args[0], args[1])
	case "ite":
		return Ite(args[0], args[1], args[2])
	case "=":
		return Eq(args[0], args[1])
	case "select":
		return Select(args[0], args[1])
	case "store":
		return Store(args[0], args[1], args[2])
	case "bvadd", "bvsub", "bvmul", "bvand", "bvor":
		return BV(t.Op, args[0], args[1])
	case "bvult", "bvule", "bvugt", "bvuge", "bvslt", "bvsle", "bvsgt", "bvsge":
		return BVCmp(t.Op, args[0], args[1])
	}
	if t.S.K == KData && t.Op == t.S.Data.Ctor {
		return MkData(t.S, args...)
	}
	if len(args) == 1 && args[0].S.K == KData {
		for i, f := range args[0].S.Data.Fields {
			if f.Name == t.Op {
				return DataField_(args[0], i)
			}
		}
	}
	return newTerm(t.Op, t.S, args...)
}

// ---- instantiation ----

type indexUse struct {
	arr, idx *Term
}

// collectGroundSelects gathers (array, index) pairs of ground select terms.
func collectGroundSelects(roots []*Term) []indexUse {
	seen := map[*Term]bool{}
	var out []indexUse
	var rec func(t *Term)
	rec = func(t *Term) {
		if seen[t] || t.Lit {
			return
		}
		seen[t] = true
		if t.Def != nil {
			rec(t.Def)
			return
		}
		if t.Quant != "" {
			// ground subterms inside quantifier bodies also count
			rec(t.Args[len(t.Args)-1])
			return
		}
		if t.Op == "select" && len(t.Args) == 2 && !hasBound(t) {
			out = append(out, indexUse{t.Args[0], t.Args[1]})
		}
		for _, a := range t.Args {
			rec(a)
		}
	}
	for _, r := range roots {
		rec(r)
	}
	return out
}

// patternsOf finds, for each bound variable, the select patterns select(A, E(q)) in body where
// A is ground and E(q) is q or q+g / g+q with g ground.
type qpattern struct {
	arr  *Term // ground array
	off  *Term // ground offset or nil
	v    *Term
	ufKey string // bound variable used directly as argument k of uninterpreted function f (recursive spec functions): "f#k"
}

func patternsOf(body *Term, vars []*Term) []qpattern {
	isVar := map[*Term]bool{}
	for _, v := range vars {
		isVar[v] = true
	}
	seen := map[*Term]bool{}
	var out []qpattern
	var rec func(t *Term)
	rec = func(t *Term) {
		if seen[t] || t.Lit || t.Var || !hasBound(t) {
			return
		}
		seen[t] = true
		if t.Op == "select" && len(t.Args) == 2 && !hasBound(t.Args[0]) {
			ix := t.Args[1]
			if isVar[ix] {
				out = append(out, qpattern{arr: t.Args[0], v: ix})
			} else if ix.Op == "bvadd" && len(ix.Args) == 2 {
				a, b := ix.Args[0], ix.Args[1]
				if isVar[a] && !hasBound(b) {
					out = append(out, qpattern{arr: t.Args[0], off: b, v: a})
				} else if isVar[b] && !hasBound(a) {
					out = append(out, qpattern{arr: t.Args[0], off: a, v: b})
				} else if b.Op == "bvadd" && len(b.Args) == 2 && !hasBound(a) {
					// off + (q + k)
					if isVar[b.Args[0]] && !hasBound(b.Args[1]) {
						out = append(out, qpattern{arr: t.Args[0], off: BV("bvadd", a, b.Args[1]), v: b.Args[0]})
					}
				}
			}
		}
		if t.UF != nil && strings.HasPrefix(t.Op, "rec.") {
			for k, a := range t.Args {
				if isVar[a] {
					out = append(out, qpattern{v: a, ufKey: fmt.Sprintf("%s#%d", t.Op, k)})
				} else if a.Op == "bvadd" && len(a.Args) == 2 && isVar[a.Args[0]] && !hasBound(a.Args[1]) {
					out = append(out, qpattern{v: a.Args[0], off: a.Args[1], ufKey: fmt.Sprintf("%s#%d", t.Op, k)})
				}
			}
		}
		for _, a := range t.Args {
			rec(a)
		}
		if t.Def != nil {
			rec(t.Def)
		}
	}
	rec(body)
	return out
}

// collectGroundUFArgs: the ground arguments of recursive-specification-function applications, per function and position.
func collectGroundUFArgs(roots []*Term) map[string]map[*Term]bool {
	seen := map[*Term]bool{}
	out := map[string]map[*Term]bool{}
	var rec func(t *Term)
	rec = func(t *Term) {
		if seen[t] || t.Lit {
			return
		}
		seen[t] = true
		if t.Def != nil {
			rec(t.Def)
			return
		}
		if t.UF != nil && strings.HasPrefix(t.Op, "rec.") {
			for k, a := range t.Args {
				if !hasBound(a) && a.S.K == KBV {
					key := fmt.Sprintf("%s#%d", t.Op, k)
					if out[key] == nil {
						out[key] = map[*Term]bool{}
					}
					out[key][a] = true
				}
			}
		}
		for _, a := range t.Args {
			rec(a)
		}
	}
	for _, r := range roots {
		rec(r)
	}
	return out
}

// relatedArrays: one array term is derived from the other by stores / ite (e.g. a slice before and after append).
func relatedArrays(a, b *Term) bool {
	return derivedFrom(a, b, 0) || derivedFrom(b, a, 0)
}

func derivedFrom(a, base *Term, depth int) bool {
	if a == base {
		return true
	}
	if depth > 6 {
		return false
	}
	switch a.Op {
	case "store":
		if len(a.Args) == 3 {
			return derivedFrom(a.Args[0], base, depth+1)
		}
	case "ite":
		if len(a.Args) == 3 {
			return derivedFrom(a.Args[1], base, depth+1) || derivedFrom(a.Args[2], base, depth+1)
		}
	case "select":
		// select(H', r) vs select(H, r): inner arrays of a heap before/after an update
		if len(a.Args) == 2 && base.Op == "select" && len(base.Args) == 2 {
			return derivedFrom(a.Args[0], base.Args[0], depth+1)
		}
	}
	if a.Def != nil {
		return derivedFrom(a.Def, base, depth+1)
	}
	return false
}

// replaceTerms substitutes arbitrary subterms (used for case splits).
func replaceTerms(t *Term, sub map[*Term]*Term) *Term {
	memo := map[*Term]*Term{}
	var rec func(t *Term) *Term
	rec = func(t *Term) *Term {
		if r, ok := sub[t]; ok {
			return r
		}
		if t.Lit || len(t.Args) == 0 {
			if t.Def != nil {
				return rec(t.Def)
			}
			return t
		}
		if r, ok := memo[t]; ok {
			return r
		}
		args := make([]*Term, len(t.Args))
		changed := false
		for i, a := range t.Args {
			args[i] = rec(a)
			if args[i] != a {
				changed = true
			}
		}
		r := t
		if changed {
			r = rebuild(t, args)
		}
		memo[t] = r
		return r
	}
	return rec(t)
}

func minusOff(idx, off *Term) *Term {
	if off == nil {
		return idx
	}
	if idx.Op == "bvadd" && len(idx.Args) == 2 {
		if idx.Args[0] == off {
			return idx.Args[1]
		}
		if idx.Args[1] == off {
			return idx.Args[0]
		}
	}
	if idx == off {
		return BVLit(0, idx.S.W)
	}
	return BV("bvsub", idx, off)
}

const maxInstances = 100

// instantiate replaces hypothesis-context foralls in t by instances. Returns ok=false if some
// quantifier had no usable pattern (then it is left in place).
func (q *qctx) instantiate(t *Term, goalCtx bool, uses []indexUse, extra map[*Sort][]*Term) *Term {
	if t.S.K != KBool || t.Lit || t.Var || t.Bound || !containsQuant(t) {
		return t
	}
	if t.Quant != "" {
		n := len(t.Args)
		vars := t.Args[:n-1]
		body := t.Args[n-1]
		if (t.Quant == "forall" && !goalCtx) || (t.Quant == "exists" && goalCtx) {
			pats := patternsOf(body, vars)
			cands := map[*Term][]*Term{}
			// per-variable cap so that the product stays within maxInstances
			capPer := maxInstances
			for n := 1; n < len(vars); n++ {
				capPer = intRoot(maxInstances, len(vars))
			}
			for _, v := range vars {
				exact := map[*Term]bool{}
				related := map[*Term]bool{}
				for _, p := range pats {
					if p.v != v {
						continue
					}
					if p.ufKey != "" {
						for g := range q.ufArgs[p.ufKey] {
							exact[minusOff(g, p.off)] = true
						}
						continue
					}
					for _, u := range uses {
						if u.arr == p.arr {
							exact[minusOff(u.idx, p.off)] = true
						} else if u.arr.S == p.arr.S && relatedArrays(u.arr, p.arr) {
							related[minusOff(u.idx, p.off)] = true
						}
					}
				}
				for _, e := range extra[v.S] {
					exact[e] = true
				}
				var l []*Term
				for c := range exact {
					l = append(l, c)
				}
				sort.Slice(l, func(i, j int) bool { return q.goalRank(l[i]) < q.goalRank(l[j]) || (q.goalRank(l[i]) == q.goalRank(l[j]) && l[i].ID < l[j].ID) })
				var r []*Term
				for c := range related {
					if !exact[c] {
						r = append(r, c)
					}
				}
				sort.Slice(r, func(i, j int) bool { return q.goalRank(r[i]) < q.goalRank(r[j]) || (q.goalRank(r[i]) == q.goalRank(r[j]) && r[i].ID < r[j].ID) })
				l = append(l, r...)
				if len(l) > capPer {
					l = l[:capPer]
				}
				cands[v] = l
			}
			total := 1
			for _, v := range vars {
				if len(cands[v]) == 0 {
					return t // no pattern: leave to the solver
				}
				total *= len(cands[v])
				if total > maxInstances {
					return t
				}
			}
			var insts []*Term
			var gen func(i int, sub map[*Term]*Term)
			gen = func(i int, sub map[*Term]*Term) {
				if i == len(vars) {
					cp := map[*Term]*Term{}
					for k, v := range sub {
						cp[k] = v
					}
					inst := substitute(body, cp)
					inst = q.instantiate(inst, goalCtx, uses, extra)
					insts = append(insts, inst)
					return
				}
				for _, c := range cands[vars[i]] {
					sub[vars[i]] = c
					gen(i+1, sub)
				}
			}
			gen(0, map[*Term]*Term{})
			if t.Quant == "forall" {
				return And(insts...)
			}
			return Or(insts...)
		}
		return t
	}
	switch t.Op {
	case "and":
		out := make([]*Term, len(t.Args))
		for i, a := range t.Args {
			out[i] = q.instantiate(a, goalCtx, uses, extra)
		}
		return And(out...)
	case "or":
		out := make([]*Term, len(t.Args))
		for i, a := range t.Args {
			out[i] = q.instantiate(a, goalCtx, uses, extra)
		}
		return Or(out...)
	case "not":
		return Not(q.instantiate(t.Args[0], !goalCtx, uses, extra))
	case "=>":
		return Implies(q.instantiate(t.Args[0], !goalCtx, uses, extra), q.instantiate(t.Args[1], goalCtx, uses, extra))
	case "ite":
		if !containsQuant(t.Args[0]) {
			return Ite(t.Args[0], q.instantiate(t.Args[1], goalCtx, uses, extra), q.instantiate(t.Args[2], goalCtx, uses, extra))
		}
	}
	if t.Def != nil {
		return q.instantiate(t.Def, goalCtx, uses, extra)
	}
	return t
}

// resolveDefs replaces every post-hoc defined variable by its definition (canonical terms).
var defMemo = map[*Term]*Term{}

func resolveDefs(t *Term) *Term {
	if t.Lit || t.Bound {
		return t
	}
	if r, ok := defMemo[t]; ok {
		return r
	}
	var r *Term
	switch {
	case t.Def != nil:
		r = resolveDefs(t.Def)
	case len(t.Args) == 0:
		r = t
	default:
		args := make([]*Term, len(t.Args))
		changed := false
		for i, a := range t.Args {
			args[i] = resolveDefs(a)
			if args[i] != a {
				changed = true
			}
		}
		if changed {
			r = rebuild(t, args)
		} else {
			r = t
		}
	}
	defMemo[t] = r
	return r
}

// prepareVC eliminates quantifiers from assumptions and goal where possible.
// Returns the definition-resolved VC and, when quantifiers were instantiated, the instantiated variant.
func prepareVC(assumes0 []*Term, goal0 *Term) ([]*Term, *Term, []*Term, *Term) {
	defMemo = map[*Term]*Term{}
	assumes := make([]*Term, len(assumes0))
	for i, a := range assumes0 {
		assumes[i] = resolveDefs(a)
	}
	goal := resolveDefs(goal0)
	assumes = relevantAssumptions(assumes, goal)
	ia, ig := prepareVCq(assumes, goal)
	return assumes, goal, ia, ig
}

func prepareVCq(assumes []*Term, goal *Term) ([]*Term, *Term) {
	any := containsQuant(goal)
	for _, a := range assumes {
		if containsQuant(a) {
			any = true
			break
		}
	}
	if !any {
		return nil, nil
	}
	q := &qctx{}
	g := q.skolem(goal, true)
	as := make([]*Term, len(assumes))
	for i, a := range assumes {
		as[i] = q.skolem(a, false)
	}
	// instantiate the original (skolemised) formulas against the index terms of the previous round's result,
	// so that terms introduced by instances (e.g. through a copy axiom) trigger further instances
	orig := append([]*Term{}, as...)
	og := g
	q.goalIdx = map[*Term]bool{}
	for _, u := range collectGroundSelects([]*Term{g}) {
		q.goalIdx[u.idx] = true
		if u.idx.Op == "bvadd" && len(u.idx.Args) == 2 {
			q.goalIdx[u.idx.Args[0]] = true
			q.goalIdx[u.idx.Args[1]] = true
		}
	}
	nuses := -1
	for round := 0; round < 3; round++ {
		roots := append(append([]*Term{}, as...), g)
		uses := collectGroundSelects(roots)
		q.ufArgs = collectGroundUFArgs(roots)
		if len(uses) == nuses {
			break
		}
		nuses = len(uses)
		g = q.instantiate(og, true, uses, nil)
		for i, a := range orig {
			as[i] = q.instantiate(a, false, uses, nil)
		}
	}
	// quantifiers that could not be eliminated are dropped from the quantifier-free attempt
	// (hypotheses weakened to true, goal parts strengthened to false): sound, possibly incomplete
	g = dropQuant(g, true)
	for i, a := range as {
		as[i] = dropQuant(a, false)
	}
	return as, g
}

func dropQuant(t *Term, goalCtx bool) *Term {
	if t.S.K != KBool || t.Lit || t.Var || t.Bound || !containsQuant(t) {
		return t
	}
	if t.Quant != "" {
		if goalCtx {
			return TFalse
		}
		return TTrue
	}
	switch t.Op {
	case "and", "or":
		out := make([]*Term, len(t.Args))
		for i, a := range t.Args {
			out[i] = dropQuant(a, goalCtx)
		}
		if t.Op == "and" {
			return And(out...)
		}
		return Or(out...)
	case "not":
		return Not(dropQuant(t.Args[0], !goalCtx))
	case "=>":
		return Implies(dropQuant(t.Args[0], !goalCtx), dropQuant(t.Args[1], goalCtx))
	case "ite":
		if !containsQuant(t.Args[0]) {
			return Ite(t.Args[0], dropQuant(t.Args[1], goalCtx), dropQuant(t.Args[2], goalCtx))
		}
	}
	if t.Def != nil {
		return dropQuant(t.Def, goalCtx)
	}
	if goalCtx {
		return TFalse
	}
	return TTrue
}


// relevantAssumptions keeps the hypotheses connected to the goal through shared free symbols (cone of
// influence). Dropping hypotheses is sound; it only shrinks the solver's work.
func relevantAssumptions(as []*Term, goal *Term) []*Term {
	symMemo := map[*Term]map[*Term]bool{}
	var syms func(t *Term) map[*Term]bool
	collect := func(t *Term) map[*Term]bool {
		out := map[*Term]bool{}
		seen := map[*Term]bool{}
		var rec func(t *Term)
		rec = func(t *Term) {
			if seen[t] || t.Lit || t.Bound {
				return
			}
			seen[t] = true
			if t.Var {
				out[t] = true
				return
			}
			if t.UF != nil && len(t.Args) == 0 {
				out[t] = true
			}
			for _, a := range t.Args {
				rec(a)
			}
		}
		rec(t)
		return out
	}
	syms = func(t *Term) map[*Term]bool {
		if m, ok := symMemo[t]; ok {
			return m
		}
		m := collect(t)
		symMemo[t] = m
		return m
	}
	rel := map[*Term]bool{}
	for s := range syms(goal) {
		rel[s] = true
	}
	keep := make([]bool, len(as))
	changed := true
	for changed {
		changed = false
		for i, a := range as {
			if keep[i] {
				continue
			}
			sm := syms(a)
			hit := len(sm) == 0
			for s := range sm {
				if rel[s] {
					hit = true
					break
				}
			}
			if hit {
				keep[i] = true
				changed = true
				for s := range sm {
					rel[s] = true
				}
			}
		}
	}
	var out []*Term
	for i, a := range as {
		if keep[i] {
			out = append(out, a)
		}
	}
	return out
}
