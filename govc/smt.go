package main

// SMT term DAG, sorts and SMT-LIB printing.

import (
	"fmt"
	"math/big"
	"sort"
	"strings"
)

type SortKind int

const (
	KBool SortKind = iota
	KBV
	KFP    // float64
	KFP32  // float32
	KArray // Array idx elem
	KData  // declared datatype (struct, slice, iface)
	KRM
)

type Sort struct {
	K     SortKind
	W     int   // BV width
	Idx   *Sort // array
	Elem  *Sort
	Name  string // datatype name
	Data  *DataDecl
	cache string
}

type DataDecl struct {
	Name   string
	Ctor   string
	Fields []DataField
}
type DataField struct {
	Name string // accessor name (globally unique)
	Sort *Sort
}

var (
	SBool = &Sort{K: KBool}
	SFP   = &Sort{K: KFP}
	SFP32 = &Sort{K: KFP32}
	bvSorts = map[int]*Sort{}
	arrSorts = map[string]*Sort{}
)

func SBV(w int) *Sort {
	if s, ok := bvSorts[w]; ok {
		return s
	}
	s := &Sort{K: KBV, W: w}
	bvSorts[w] = s
	return s
}

var SRef = SBV(64)
var SInt = SBV(64)

func SArray(idx, elem *Sort) *Sort {
	k := idx.String() + "->" + elem.String()
	if s, ok := arrSorts[k]; ok {
		return s
	}
	s := &Sort{K: KArray, Idx: idx, Elem: elem}
	arrSorts[k] = s
	return s
}

func (s *Sort) String() string {
	if s.cache != "" {
		return s.cache
	}
	var r string
	switch s.K {
	case KBool:
		r = "Bool"
	case KBV:
		r = fmt.Sprintf("(_ BitVec %d)", s.W)
	case KFP:
		r = "(_ FloatingPoint 11 53)"
	case KFP32:
		r = "(_ FloatingPoint 8 24)"
	case KArray:
		r = "(Array " + s.Idx.String() + " " + s.Elem.String() + ")"
	case KData:
		r = s.Name
	case KRM:
		r = "RoundingMode"
	}
	s.cache = r
	return r
}

type Term struct {
	ID   int
	Op   string // SMT operator / symbol; for leaves the literal text
	Args []*Term
	S    *Sort
	// Kind of leaf
	Var   bool   // declared constant (free variable)
	Lit   bool   // literal
	Bound bool   // bound variable of a quantifier
	Quant string // "forall"/"exists" for quantifier nodes: Args[0..n-2] bound vars, Args[n-1] body
	// UF application: Op is function name, declared via UFDecl
	UF *UFDecl
	// post-hoc definition for havoc variables (see loops)
	Def *Term
}

type UFDecl struct {
	Name string
	Args []*Sort
	Res  *Sort
}

var termCounter int

var consTable = map[string]*Term{}

// newTerm hash-conses applications: structurally equal terms are pointer-equal.
func newTerm(op string, s *Sort, args ...*Term) *Term {
	if len(args) > 0 {
		var kb strings.Builder
		kb.WriteString(op)
		kb.WriteByte('|')
		kb.WriteString(s.String())
		for _, a := range args {
			fmt.Fprintf(&kb, "|%d", a.ID)
		}
		k := kb.String()
		if t, ok := consTable[k]; ok {
			return t
		}
		termCounter++
		t := &Term{ID: termCounter, Op: op, Args: args, S: s}
		consTable[k] = t
		return t
	}
	termCounter++
	return &Term{ID: termCounter, Op: op, Args: args, S: s}
}

var litCache = map[string]*Term{}

func lit(text string, s *Sort) *Term {
	k := text + "|" + s.String()
	if t, ok := litCache[k]; ok {
		return t
	}
	t := newTerm(text, s)
	t.Lit = true
	litCache[k] = t
	return t
}

var (
	TTrue  = lit("true", SBool)
	TFalse = lit("false", SBool)
)

var varNames = map[string]int{}

func sanitize(s string) string {
	var b strings.Builder
	for _, c := range s {
		switch {
		case c >= 'a' && c <= 'z', c >= 'A' && c <= 'Z', c >= '0' && c <= '9', c == '_', c == '.', c == '$':
			b.WriteRune(c)
		default:
			b.WriteRune('_')
		}
	}
	return b.String()
}

// FreshVar declares a new free constant.
func FreshVar(hint string, s *Sort) *Term {
	if s.K == KData {
		args := make([]*Term, len(s.Data.Fields))
		for i, f := range s.Data.Fields {
			args[i] = FreshVar(hint+"."+f.Name, f.Sort)
		}
		return MkData(s, args...)
	}
	hint = sanitize(hint)
	switch hint {
	case "mod", "div", "abs", "not", "and", "or", "ite", "select", "store", "let", "forall", "exists", "distinct", "true", "false", "rem", "concat":
		hint = "v_" + hint
	}
	n := varNames[hint]
	varNames[hint] = n + 1
	name := hint
	if n > 0 {
		name = fmt.Sprintf("%s!%d", hint, n)
	}
	t := newTerm(name, s)
	t.Var = true
	return t
}

func BVLit(v uint64, w int) *Term {
	if w%4 == 0 {
		return lit(fmt.Sprintf("#x%0*x", w/4, v&mask(w)), SBV(w))
	}
	return lit(fmt.Sprintf("#b%0*b", w, v&mask(w)), SBV(w))
}

func mask(w int) uint64 {
	if w >= 64 {
		return ^uint64(0)
	}
	return (uint64(1) << uint(w)) - 1
}

func BVLitBig(v *big.Int, w int) *Term {
	m := new(big.Int).Lsh(big.NewInt(1), uint(w))
	x := new(big.Int).Mod(v, m)
	if x.Sign() < 0 {
		x.Add(x, m)
	}
	return BVLit(x.Uint64(), w)
}

func (t *Term) IsLitBV() (uint64, bool) {
	if !t.Lit || t.S.K != KBV {
		return 0, false
	}
	var v uint64
	if strings.HasPrefix(t.Op, "#x") {
		fmt.Sscanf(t.Op[2:], "%x", &v)
		return v, true
	}
	if strings.HasPrefix(t.Op, "#b") {
		fmt.Sscanf(t.Op[2:], "%b", &v)
		return v, true
	}
	return 0, false
}

// ---- builders with light simplification ----

func Not(a *Term) *Term {
	if a == TTrue {
		return TFalse
	}
	if a == TFalse {
		return TTrue
	}
	if a.Op == "not" && len(a.Args) == 1 {
		return a.Args[0]
	}
	return newTerm("not", SBool, a)
}

func isNeg(a, b *Term) bool {
	return (a.Op == "not" && len(a.Args) == 1 && a.Args[0] == b) || (b.Op == "not" && len(b.Args) == 1 && b.Args[0] == a)
}

func flatten(op string, as []*Term, out []*Term) []*Term {
	for _, a := range as {
		if a.Op == op && !a.Var && !a.Lit && a.UF == nil && a.Quant == "" {
			out = flatten(op, a.Args, out)
		} else {
			out = append(out, a)
		}
	}
	return out
}

// simplifyUnder rewrites t assuming fact is true (only through and/or/not structure).
func simplifyUnder(t, fact *Term, depth int) *Term {
	if t == fact {
		return TTrue
	}
	if depth > 6 || t.Lit || t.Var || t.Bound || t.S.K != KBool || t.UF != nil || t.Quant != "" {
		return t
	}
	if isNeg(t, fact) {
		return TFalse
	}
	switch t.Op {
	case "and", "or":
		changed := false
		args := make([]*Term, len(t.Args))
		for i, a := range t.Args {
			args[i] = simplifyUnder(a, fact, depth+1)
			if args[i] != a {
				changed = true
			}
		}
		if !changed {
			return t
		}
		if t.Op == "and" {
			return And(args...)
		}
		return Or(args...)
	case "not":
		a := simplifyUnder(t.Args[0], fact, depth+1)
		if a == t.Args[0] {
			return t
		}
		return Not(a)
	}
	return t
}

func And(as ...*Term) *Term {
	if len(as) == 2 && as[0] != TTrue && as[0] != TFalse && as[1].S.K == KBool {
		as = []*Term{as[0], simplifyUnder(as[1], as[0], 0)}
	}
	var out []*Term
	for _, a := range as {
		if a == TTrue {
			continue
		}
		if a == TFalse {
			return TFalse
		}
		dup := false
		for _, o := range out {
			if o == a {
				dup = true
			}
			if isNeg(o, a) {
				return TFalse
			}
		}
		if !dup {
			out = append(out, a)
		}
	}
	if len(out) == 0 {
		return TTrue
	}
	if len(out) == 1 {
		return out[0]
	}
	return newTerm("and", SBool, out...)
}

func andArgs(t *Term) []*Term {
	if t.Op == "and" && !t.Var && !t.Lit {
		return t.Args
	}
	return []*Term{t}
}

func Or(as ...*Term) *Term {
	var out []*Term
	for _, a := range as {
		if a == TFalse {
			continue
		}
		if a == TTrue {
			return TTrue
		}
		dup := false
		for _, o := range out {
			if o == a {
				dup = true
			}
			if isNeg(o, a) {
				return TTrue
			}
		}
		if !dup {
			out = append(out, a)
		}
	}
	if len(out) == 0 {
		return TFalse
	}
	if len(out) == 1 {
		return out[0]
	}
	// (r & x) | (r & !x)  ==> r
	changed := true
	for changed && len(out) > 1 {
		changed = false
	outer:
		for i := 0; i < len(out); i++ {
			for j := i + 1; j < len(out); j++ {
				if m := mergeCompl(out[i], out[j]); m != nil {
					out[i] = m
					out = append(out[:j], out[j+1:]...)
					changed = true
					break outer
				}
			}
		}
	}
	if len(out) == 1 {
		return out[0]
	}
	return newTerm("or", SBool, out...)
}

// mergeCompl: a = common & x, b = common & !x  ->  common
func mergeCompl(a, b *Term) *Term {
	aa, ba := andArgs(a), andArgs(b)
	if len(aa) != len(ba) {
		return nil
	}
	var diffA *Term
	for _, x := range aa {
		found := false
		for _, y := range ba {
			if x == y {
				found = true
			}
		}
		if !found {
			if diffA != nil {
				return nil
			}
			diffA = x
		}
	}
	if diffA == nil {
		return a
	}
	var diffB *Term
	for _, y := range ba {
		found := false
		for _, x := range aa {
			if x == y {
				found = true
			}
		}
		if !found {
			if diffB != nil {
				return nil
			}
			diffB = y
		}
	}
	if diffB == nil || !isNeg(diffA, diffB) {
		return nil
	}
	var common []*Term
	for _, x := range aa {
		if x != diffA {
			common = append(common, x)
		}
	}
	return And(common...)
}

func Implies(a, b *Term) *Term {
	if a == TTrue {
		return b
	}
	if a == TFalse || b == TTrue {
		return TTrue
	}
	if b == TFalse {
		return Not(a)
	}
	return newTerm("=>", SBool, a, b)
}

func Ite(c, a, b *Term) *Term {
	if c == TTrue {
		return a
	}
	if c == TFalse {
		return b
	}
	if a == b {
		return a
	}
	if a.S != b.S && a.S.String() != b.S.String() {
		panic(fmt.Sprintf("ite sort mismatch %s vs %s", a.S, b.S))
	}
	if c.Op == "not" && len(c.Args) == 1 {
		return Ite(c.Args[0], b, a)
	}
	if a.S.K == KData && a.Op == a.S.Data.Ctor && b.Op == a.S.Data.Ctor && !a.Var && !b.Var && len(a.Args) == len(b.Args) && len(a.Args) > 0 {
		args := make([]*Term, len(a.Args))
		for i := range a.Args {
			args[i] = Ite(c, a.Args[i], b.Args[i])
		}
		return MkData(a.S, args...)
	}
	if a.S.K == KBool {
		if a == TTrue && b == TFalse {
			return c
		}
		if a == TFalse && b == TTrue {
			return Not(c)
		}
		if a == TFalse {
			return And(Not(c), b)
		}
		if b == TFalse {
			return And(c, a)
		}
		if a == TTrue {
			return Or(c, b)
		}
		if b == TTrue {
			return Or(Not(c), a)
		}
	}
	return newTerm("ite", a.S, c, a, b)
}

func Eq(a, b *Term) *Term {
	if a == b {
		return TTrue
	}
	if a.S.String() != b.S.String() {
		panic(fmt.Sprintf("eq sort mismatch %s vs %s (%s, %s)", a.S, b.S, a.Op, b.Op))
	}
	if a.S.K == KData && a.Op == a.S.Data.Ctor && b.Op == a.S.Data.Ctor && !a.Var && !b.Var && len(a.Args) == len(b.Args) && len(a.Args) > 0 {
		cs := make([]*Term, len(a.Args))
		for i := range a.Args {
			cs[i] = Eq(a.Args[i], b.Args[i])
		}
		return And(cs...)
	}
	if a.Lit && b.Lit {
		if a.Op == b.Op {
			return TTrue
		}
		if a.S.K == KBV || a.S.K == KBool {
			return TFalse
		}
	}
	return newTerm("=", SBool, a, b)
}

// Reference terms known to be pairwise distinct: freshly allocated objects differ from each other, from nil and
// from every reference that existed in the pre-state (inputs).
var freshRefTerms = map[*Term]bool{}
var inputRefTerms = map[*Term]bool{}

func knownDistinct(a, b *Term) bool {
	if a == b {
		return false
	}
	if a.Lit && b.Lit {
		return true
	}
	fa, fb := freshRefTerms[a], freshRefTerms[b]
	if fa && fb {
		return true
	}
	if fa && (inputRefTerms[b] || b.Lit) {
		return true
	}
	if fb && (inputRefTerms[a] || a.Lit) {
		return true
	}
	return false
}

// constant tables: a term of array sort whose elements are known; reads become balanced if-then-else trees
// over the index bits (store chains of hundreds of entries make the solvers hang, mux trees do not)
var constTableVals = map[*Term][]*Term{}

func ConstTable(name string, elem *Sort, vals []*Term) *Term {
	t := newTerm("consttable_"+sanitize(name), SArray(SInt, elem))
	t.Lit = true
	constTableVals[t] = vals
	return t
}

func leadsToTable(t *Term) bool {
	if _, ok := constTableVals[t]; ok {
		return true
	}
	if t.Op == "ite" && len(t.Args) == 3 {
		return leadsToTable(t.Args[1]) && leadsToTable(t.Args[2])
	}
	return false
}

func muxTree(vals []*Term, idx *Term, bit int) *Term {
	if len(vals) == 1 {
		return vals[0]
	}
	half := 1 << uint(bit)
	if len(vals) <= half {
		return muxTree(vals, idx, bit-1)
	}
	lo := muxTree(vals[:half], idx, bit-1)
	hi := muxTree(vals[half:], idx, bit-1)
	return Ite(Eq(Extract(bit, bit, idx), BVLit(1, 1)), hi, lo)
}

func Select(arr, idx *Term) *Term {
	if vals, ok := constTableVals[arr]; ok {
		if v, isLit := idx.IsLitBV(); isLit && v < uint64(len(vals)) {
			return vals[v]
		}
		bits := 0
		for (1 << uint(bits)) < len(vals) {
			bits++
		}
		if bits == 0 {
			return vals[0]
		}
		return muxTree(vals, idx, bits-1)
	}
	if arr.Op == "ite" && len(arr.Args) == 3 && leadsToTable(arr) {
		return Ite(arr.Args[0], Select(arr.Args[1], idx), Select(arr.Args[2], idx))
	}
	// read-over-write simplification on syntactically equal / provably distinct indices
	a := arr
	for a.Op == "store" && len(a.Args) == 3 {
		if a.Args[1] == idx {
			return a.Args[2]
		}
		if !knownDistinct(a.Args[1], idx) {
			break
		}
		a = a.Args[0]
	}
	return newTerm("select", arr.S.Elem, a, idx)
}

func Store(arr, idx, v *Term) *Term {
	if v.S.String() != arr.S.Elem.String() {
		panic(fmt.Sprintf("store sort mismatch: array %s value %s", arr.S, v.S))
	}
	return newTerm("store", arr.S, arr, idx, v)
}

func BV(op string, a, b *Term) *Term {
	if a.S.K != KBV || b.S.K != KBV || a.S.W != b.S.W {
		panic(fmt.Sprintf("bv op %s sort mismatch %s %s", op, a.S, b.S))
	}
	// identities with zero
	if op == "bvadd" || op == "bvor" || op == "bvxor" {
		if x, ok := a.IsLitBV(); ok && x == 0 {
			return b
		}
		if y, ok := b.IsLitBV(); ok && y == 0 {
			return a
		}
	}
	if op == "bvsub" {
		if y, ok := b.IsLitBV(); ok && y == 0 {
			return a
		}
	}
	// constant folding for a few ops
	if x, ok := a.IsLitBV(); ok {
		if y, ok2 := b.IsLitBV(); ok2 && a.S.W <= 64 {
			w := a.S.W
			switch op {
			case "bvadd":
				return BVLit(x+y, w)
			case "bvsub":
				return BVLit(x-y, w)
			case "bvand":
				return BVLit(x&y, w)
			case "bvor":
				return BVLit(x|y, w)
			case "bvmul":
				return BVLit(x*y, w)
			}
		}
	}
	return newTerm(op, a.S, a, b)
}

func BVCmp(op string, a, b *Term) *Term {
	if a.S.K != KBV || b.S.K != KBV || a.S.W != b.S.W {
		panic(fmt.Sprintf("bv cmp %s sort mismatch %s %s", op, a.S, b.S))
	}
	if x, ok := a.IsLitBV(); ok {
		if y, ok2 := b.IsLitBV(); ok2 && a.S.W <= 64 {
			sh := uint(64 - a.S.W)
			sx, sy := int64(x<<sh)>>sh, int64(y<<sh)>>sh
			var r bool
			known := true
			switch op {
			case "bvult":
				r = x < y
			case "bvule":
				r = x <= y
			case "bvugt":
				r = x > y
			case "bvuge":
				r = x >= y
			case "bvslt":
				r = sx < sy
			case "bvsle":
				r = sx <= sy
			case "bvsgt":
				r = sx > sy
			case "bvsge":
				r = sx >= sy
			default:
				known = false
			}
			if known {
				if r {
					return TTrue
				}
				return TFalse
			}
		}
	}
	return newTerm(op, SBool, a, b)
}

func Extract(hi, lo int, a *Term) *Term {
	if lo == 0 && hi == a.S.W-1 {
		return a
	}
	if v, ok := a.IsLitBV(); ok {
		return BVLit(v>>uint(lo), hi-lo+1)
	}
	return newTerm(fmt.Sprintf("(_ extract %d %d)", hi, lo), SBV(hi-lo+1), a)
}

func ZeroExt(n int, a *Term) *Term {
	if n == 0 {
		return a
	}
	if v, ok := a.IsLitBV(); ok && a.S.W+n <= 64 {
		return BVLit(v, a.S.W+n)
	}
	return newTerm(fmt.Sprintf("(_ zero_extend %d)", n), SBV(a.S.W+n), a)
}

func SignExt(n int, a *Term) *Term {
	if n == 0 {
		return a
	}
	if v, ok := a.IsLitBV(); ok && a.S.W+n <= 64 {
		w := a.S.W
		if v&(1<<uint(w-1)) != 0 {
			v |= ^mask(w)
		}
		return BVLit(v, w+n)
	}
	return newTerm(fmt.Sprintf("(_ sign_extend %d)", n), SBV(a.S.W+n), a)
}

func Concat(a, b *Term) *Term {
	return newTerm("concat", SBV(a.S.W+b.S.W), a, b)
}

func App(op string, s *Sort, args ...*Term) *Term { return newTerm(op, s, args...) }

var ufDecls = map[string]*UFDecl{}

func UFApp(name string, res *Sort, args ...*Term) *Term {
	name = sanitize(name)
	sig := res.String()
	for _, a := range args {
		sig += "," + a.S.String()
	}
	// the same Go function is a different SMT function per float mode (its sorts differ): one declaration per signature
	base := name
	for n := 1; ; n++ {
		d, ok := ufDecls[name]
		if !ok {
			break
		}
		dsig := d.Res.String()
		for _, a := range d.Args {
			dsig += "," + a.String()
		}
		if dsig == sig {
			break
		}
		name = fmt.Sprintf("%s__v%d", base, n)
	}
	d, ok := ufDecls[name]
	if !ok {
		d = &UFDecl{Name: name, Res: res}
		for _, a := range args {
			d.Args = append(d.Args, a.S)
		}
		ufDecls[name] = d
	}
	if len(args) == 0 {
		// nullary UF = constant
		t := newTerm(name, res)
		t.UF = d
		return t
	}
	t := newTerm(name, res, args...)
	t.UF = d
	return t
}

func Forall(vars []*Term, body *Term) *Term {
	if body == TTrue {
		return TTrue
	}
	if body.Quant == "forall" {
		n := len(body.Args)
		vars = append(append([]*Term{}, vars...), body.Args[:n-1]...)
		body = body.Args[n-1]
	}
	t := newTerm("forall", SBool, append(append([]*Term{}, vars...), body)...)
	t.Quant = "forall"
	return t
}
func Exists(vars []*Term, body *Term) *Term {
	if body == TFalse {
		return TFalse
	}
	t := newTerm("exists", SBool, append(append([]*Term{}, vars...), body)...)
	t.Quant = "exists"
	return t
}

func BoundVar(hint string, s *Sort) *Term {
	t := FreshVar("q_"+hint, s)
	t.Var = false
	t.Bound = true
	return t
}

// Datatype helpers
var dataDecls = map[string]*Sort{}
var dataOrder []*Sort

func DeclareData(name string, fields []DataField) *Sort {
	name = sanitize(name)
	if s, ok := dataDecls[name]; ok {
		return s
	}
	d := &DataDecl{Name: name, Ctor: "mk_" + name, Fields: fields}
	s := &Sort{K: KData, Name: name, Data: d}
	dataDecls[name] = s
	dataOrder = append(dataOrder, s)
	return s
}

func MkData(s *Sort, args ...*Term) *Term {
	if len(args) != len(s.Data.Fields) {
		panic("MkData arity " + s.Name)
	}
	// mk(sel0(x), sel1(x), ...) == x
	if len(args) > 0 {
		var base *Term
		ok := true
		for i, a := range args {
			if a.Op == s.Data.Fields[i].Name && len(a.Args) == 1 && !a.Lit && !a.Var {
				if base == nil {
					base = a.Args[0]
				} else if base != a.Args[0] {
					ok = false
				}
			} else {
				ok = false
			}
		}
		if ok && base != nil && base.S == s {
			return base
		}
	}
	for i, a := range args {
		if a.S.String() != s.Data.Fields[i].Sort.String() {
			panic(fmt.Sprintf("MkData %s field %d sort %s want %s", s.Name, i, a.S, s.Data.Fields[i].Sort))
		}
	}
	if len(args) == 0 {
		return newTerm(s.Data.Ctor, s)
	}
	return newTerm(s.Data.Ctor, s, args...)
}

func DataField_(t *Term, i int) *Term {
	d := t.S.Data
	if t.Op == d.Ctor && len(t.Args) == len(d.Fields) && !t.Var && !t.Lit {
		return t.Args[i]
	}
	if t.Op == "ite" {
		// push selectors through ite of constructors to keep terms small
		a, b := t.Args[1], t.Args[2]
		if (a.Op == d.Ctor && !a.Var) || (b.Op == d.Ctor && !b.Var) {
			return Ite(t.Args[0], DataField_(a, i), DataField_(b, i))
		}
	}
	return newTerm(d.Fields[i].Name, d.Fields[i].Sort, t)
}

func DataUpdate(t *Term, i int, v *Term) *Term {
	d := t.S.Data
	args := make([]*Term, len(d.Fields))
	for k := range d.Fields {
		if k == i {
			args[k] = v
		} else {
			args[k] = DataField_(t, k)
		}
	}
	return MkData(t.S, args...)
}

// ---- printing ----

type Printer struct {
	refs    map[*Term]int
	emitted map[*Term]string
	out     *strings.Builder
	decls   *strings.Builder
	usedData map[*Sort]bool
	usedUF   map[*UFDecl]bool
	declared map[*Term]bool
	hasQuant, hasFP, hasArr, hasData, hasUF bool
}

func NewPrinter() *Printer {
	return &Printer{refs: map[*Term]int{}, emitted: map[*Term]string{}, out: &strings.Builder{}, decls: &strings.Builder{},
		usedData: map[*Sort]bool{}, usedUF: map[*UFDecl]bool{}, declared: map[*Term]bool{}}
}

func (p *Printer) noteSort(s *Sort) {
	switch s.K {
	case KFP, KFP32:
		p.hasFP = true
	case KArray:
		p.hasArr = true
		p.noteSort(s.Idx)
		p.noteSort(s.Elem)
	case KData:
		p.hasData = true
		if !p.usedData[s] {
			p.usedData[s] = true
			for _, f := range s.Data.Fields {
				p.noteSort(f.Sort)
			}
		}
	}
}

func (p *Printer) count(t *Term) {
	// iterative DFS to avoid deep recursion
	stack := []*Term{t}
	for len(stack) > 0 {
		x := stack[len(stack)-1]
		stack = stack[:len(stack)-1]
		p.refs[x]++
		if p.refs[x] > 1 {
			continue
		}
		if x.Def != nil {
			stack = append(stack, x.Def)
			continue
		}
		for _, a := range x.Args {
			stack = append(stack, a)
		}
	}
}

// Emit returns the SMT text for term t, emitting define-funs for shared subterms.
func (p *Printer) Emit(t *Term) string {
	if s, ok := p.emitted[t]; ok {
		return s
	}
	p.noteSort(t.S)
	var s string
	switch {
	case t.Def != nil:
		d := p.Emit(t.Def)
		s = d
	case t.Bound:
		s = t.Op
	case t.Lit:
		s = t.Op
	case t.Var:
		if !p.declared[t] {
			p.declared[t] = true
			fmt.Fprintf(p.out, "(declare-fun %s () %s)\n", t.Op, t.S)
		}
		s = t.Op
	case t.Quant != "":
		p.hasQuant = true
		n := len(t.Args)
		var vs []string
		for _, v := range t.Args[:n-1] {
			vs = append(vs, fmt.Sprintf("(%s %s)", v.Op, v.S))
		}
		// quantifier bodies are printed inline (no define-fun for subterms containing bound vars)
		body := p.inline(t.Args[n-1])
		s = fmt.Sprintf("(%s (%s) %s)", t.Quant, strings.Join(vs, " "), body)
	default:
		if t.UF != nil {
			p.hasUF = true
			if !p.usedUF[t.UF] {
				p.usedUF[t.UF] = true
				var as []string
				for _, a := range t.UF.Args {
					p.noteSort(a)
					as = append(as, a.String())
				}
				p.noteSort(t.UF.Res)
				fmt.Fprintf(p.out, "(declare-fun %s (%s) %s)\n", t.UF.Name, strings.Join(as, " "), t.UF.Res)
			}
		}
		if strings.HasPrefix(t.Op, "(as const") {
			p.hasData = true // no restricted logic: z3 4.8 rejects constant arrays under QF_ABV
		}
		if len(t.Args) == 0 {
			s = t.Op
		} else {
			parts := make([]string, 0, len(t.Args)+1)
			parts = append(parts, t.Op)
			for _, a := range t.Args {
				parts = append(parts, p.Emit(a))
			}
			s = "(" + strings.Join(parts, " ") + ")"
		}
		if p.refs[t] > 1 && len(t.Args) > 0 && len(s) > 24 {
			name := fmt.Sprintf("n%d", t.ID)
			fmt.Fprintf(p.out, "(define-fun %s () %s %s)\n", name, t.S, s)
			s = name
		}
	}
	p.emitted[t] = s
	return s
}

// inline prints a term containing bound variables; closed shared subterms are still emitted via Emit.
func (p *Printer) inline(t *Term) string {
	if !hasBound(t) {
		return p.Emit(t)
	}
	p.noteSort(t.S)
	if t.Bound {
		return t.Op
	}
	if t.Quant != "" {
		n := len(t.Args)
		var vs []string
		for _, v := range t.Args[:n-1] {
			vs = append(vs, fmt.Sprintf("(%s %s)", v.Op, v.S))
		}
		return fmt.Sprintf("(%s (%s) %s)", t.Quant, strings.Join(vs, " "), p.inline(t.Args[n-1]))
	}
	if t.UF != nil && !p.usedUF[t.UF] {
		p.hasUF = true
		p.usedUF[t.UF] = true
		var as []string
		for _, a := range t.UF.Args {
			p.noteSort(a)
			as = append(as, a.String())
		}
		fmt.Fprintf(p.out, "(declare-fun %s (%s) %s)\n", t.UF.Name, strings.Join(as, " "), t.UF.Res)
	}
	if t.Def != nil {
		return p.inline(t.Def)
	}
	parts := []string{t.Op}
	for _, a := range t.Args {
		parts = append(parts, p.inline(a))
	}
	return "(" + strings.Join(parts, " ") + ")"
}

var boundCache = map[*Term]bool{}

func hasBound(t *Term) bool {
	if t.Bound {
		return true
	}
	if t.Lit || t.Var {
		return false
	}
	if v, ok := boundCache[t]; ok {
		return v
	}
	r := false
	if t.Def != nil {
		r = hasBound(t.Def)
	} else {
		for _, a := range t.Args {
			if hasBound(a) {
				r = true
				break
			}
		}
	}
	boundCache[t] = r
	return r
}

// Script builds a complete SMT-LIB script: assumptions, negated goal, check-sat.
// getValues are extra terms whose model values are requested.
func BuildScript(assumes []*Term, goal *Term, getValues []*Term, forCVC5 bool) (string, *Printer) {
	p := NewPrinter()
	for _, a := range assumes {
		p.count(a)
	}
	p.count(goal)
	for _, g := range getValues {
		p.count(g)
	}
	var body strings.Builder
	for _, a := range assumes {
		s := p.Emit(a)
		fmt.Fprintf(p.out, "(assert %s)\n", s)
	}
	g := p.Emit(goal)
	fmt.Fprintf(p.out, "(assert (not %s))\n", g)
	var gv []string
	for _, t := range getValues {
		gv = append(gv, p.Emit(t))
	}
	body.WriteString("(set-option :produce-models true)\n")
	logic := ""
	if !p.hasData && !p.hasQuant {
		switch {
		case p.hasFP && (p.hasArr):
			logic = "QF_ABVFP"
		case p.hasFP && p.hasUF:
			logic = "QF_UFBVFP" // not universally known; fall back below
			logic = ""
		case p.hasFP:
			logic = "QF_BVFP"
		case p.hasArr && p.hasUF:
			logic = "QF_AUFBV"
		case p.hasArr:
			logic = "QF_ABV"
		case p.hasUF:
			logic = "QF_UFBV"
		default:
			logic = "QF_BV"
		}
	}
	if logic == "" {
		if forCVC5 {
			logic = "ALL"
		}
	}
	if logic != "" {
		fmt.Fprintf(&body, "(set-logic %s)\n", logic)
	}
	// datatypes in dependency order (declaration order is creation order, which is dependency order)
	var ds []*Sort
	for s := range p.usedData {
		ds = append(ds, s)
	}
	sort.Slice(ds, func(i, j int) bool { return dataIndex(ds[i]) < dataIndex(ds[j]) })
	for _, s := range ds {
		var fs []string
		for _, f := range s.Data.Fields {
			fs = append(fs, fmt.Sprintf("(%s %s)", f.Name, f.Sort))
		}
		fmt.Fprintf(&body, "(declare-datatypes ((%s 0)) (((%s %s))))\n", s.Name, s.Data.Ctor, strings.Join(fs, " "))
	}
	body.WriteString(p.out.String())
	body.WriteString("(check-sat)\n")
	if len(gv) > 0 {
		fmt.Fprintf(&body, "(get-value (%s))\n", strings.Join(gv, " "))
	}
	return body.String(), p
}

func dataIndex(s *Sort) int {
	for i, d := range dataOrder {
		if d == s {
			return i
		}
	}
	return -1
}
