package main

// Models of standard-library functions (the trusted stdlib contracts of DESIGN section 2.2).

import (
	"math"
	"fmt"
	"go/token"
	"go/types"
	"strings"

	"golang.org/x/tools/go/ssa"
)

func tzTerm(x *Term) *Term {
	w := x.S.W
	acc := BVLit(uint64(w), 64)
	for i := w - 1; i >= 0; i-- {
		acc = Ite(Eq(Extract(i, i, x), BVLit(1, 1)), BVLit(uint64(i), 64), acc)
	}
	return acc
}

func lzTerm(x *Term) *Term {
	w := x.S.W
	acc := BVLit(uint64(w), 64)
	for i := 0; i < w; i++ {
		acc = Ite(Eq(Extract(i, i, x), BVLit(1, 1)), BVLit(uint64(w-1-i), 64), acc)
	}
	return acc
}

func fpIsNaN(x *Term) *Term { return App("fp.isNaN", SBool, x) }

var fpNaN = lit("(_ NaN 11 53)", SFP)
var fpPInf = lit("(_ +oo 11 53)", SFP)
var fpNInf = lit("(_ -oo 11 53)", SFP)

func (fr *Frame) stdModel(name string, fn *ssa.Function, args []Val, pos token.Pos, resType types.Type) (Val, bool) {
	c := fr.ctx
	T := func(i int) *Term { return args[i].term() }
	one := func(t *Term) (Val, bool) { return Val{T: t}, true }
	if floatMode == 0 && strings.HasPrefix(name, "math.") {
		switch name {
		case "math.Float64bits", "math.Float64frombits":
			return one(T(0))
		}
		var ts []*Term
		for i := range args {
			ts = append(ts, T(i))
		}
		if fn.Signature.Results().Len() == 1 {
			return one(UFApp("ofp."+name, sortOf(fn.Signature.Results().At(0).Type()), ts...))
		}
		return Val{}, false
	}
	switch name {
	case "(*math/big.Float).Sign":
		// the sign of an arbitrary-precision value: a deterministic function of the value's identity, in {-1,0,1}
		// (assumption: the big.Float values the exact predicates build are not mutated afterwards)
		r := UFApp("big.Float.Sign", SInt, T(0))
		c.assume(Or(Eq(r, BVLit(0, 64)), Eq(r, BVLit(1, 64)), Eq(r, BVLit(^uint64(0), 64))))
		return one(r)
	case "math/bits.TrailingZeros64", "math/bits.TrailingZeros32", "math/bits.TrailingZeros":
		return one(tzTerm(T(0)))
	case "math/bits.LeadingZeros64", "math/bits.LeadingZeros32":
		return one(lzTerm(T(0)))
	case "math/bits.Len64", "math/bits.Len32", "math/bits.Len":
		return one(BV("bvsub", BVLit(uint64(T(0).S.W), 64), lzTerm(T(0))))
	case "math.Abs":
		return one(App("fp.abs", SFP, T(0)))
	case "math.IsNaN":
		return one(fpIsNaN(T(0)))
	case "math.NaN":
		return one(fpNaN)
	case "math.Inf":
		return one(Ite(BVCmp("bvsge", T(0), BVLit(0, 64)), fpPInf, fpNInf))
	case "math.IsInf":
		x, s := T(0), T(1)
		pos_ := Eq(x, fpPInf)
		neg := Eq(x, fpNInf)
		return one(Or(And(BVCmp("bvsge", s, BVLit(0, 64)), pos_), And(BVCmp("bvsle", s, BVLit(0, 64)), neg)))
	case "math.Signbit":
		return one(Or(App("fp.isNegative", SBool, T(0)), And(fpIsNaN(T(0)), FreshVar("nan_sign", SBool))))
	case "math.Max", "math.Min":
		x, y := T(0), T(1)
		nan := Or(fpIsNaN(x), fpIsNaN(y))
		var r *Term
		if name == "math.Max" {
			inf := Or(Eq(x, fpPInf), Eq(y, fpPInf))
			r = Ite(inf, fpPInf, Ite(nan, fpNaN, Ite(App("fp.gt", SBool, x, y), x, Ite(App("fp.gt", SBool, y, x), y, Ite(App("fp.isNegative", SBool, x), y, x)))))
		} else {
			inf := Or(Eq(x, fpNInf), Eq(y, fpNInf))
			r = Ite(inf, fpNInf, Ite(nan, fpNaN, Ite(App("fp.lt", SBool, x, y), x, Ite(App("fp.lt", SBool, y, x), y, Ite(App("fp.isNegative", SBool, x), x, y)))))
		}
		return one(r)
	case "math.Float64bits":
		return one(fpToBits(c, T(0)))
	case "math.Float64frombits":
		return one(App("(_ to_fp 11 53)", SFP, T(0)))
	case "math.Sqrt":
		if c.fp {
			return one(App("fp.sqrt", SFP, RNE, T(0)))
		}
		return one(UFApp("umath.Sqrt", SFP, T(0)))
	case "math.Floor", "math.Ceil", "math.Trunc", "math.RoundToEven":
		rm := map[string]string{"math.Floor": "RTN", "math.Ceil": "RTP", "math.Trunc": "RTZ", "math.RoundToEven": "RNE"}[name]
		if c.fp {
			return one(App("fp.roundToIntegral", SFP, lit(rm, &Sort{K: KRM}), T(0)))
		}
		return one(UFApp("u"+name, SFP, T(0)))
	case "math.Remainder":
		if c.fp && c.contract != nil && c.contract.Flags["remwrap"] != "" && T(1) == fpLit(2*math.Pi) {
			// flag remwrap: for |x| < 3*pi the IEEE remainder by 2*pi is x, x-2*pi or x+2*pi, each computed exactly
			// (stand-alone lemma /verif/lemmas/remainder_wrap.smt2); the range is an obligation at every use.
			// fp.rem itself costs the solvers minutes per occurrence.
			x := T(0)
			pi := fpLit(math.Pi)
			three := App("fp.mul", SFP, RNE, fpLit(3), pi)
			c.oblige(fr, "remwrap-range", "math.Remainder argument within (-3pi, 3pi)", App("fp.lt", SBool, App("fp.abs", SFP, x), three), pos)
			two := fpLit(2 * math.Pi)
			// (the remainder of -2*pi is -0: the sign of a zero result is that of x)
			w := Ite(App("fp.leq", SBool, App("fp.abs", SFP, x), pi), x,
				Ite(App("fp.gt", SBool, x, pi), App("fp.sub", SFP, RNE, x, two),
					Ite(App("fp.eq", SBool, x, App("fp.neg", SFP, two)), fpLit(math.Copysign(0, -1)), App("fp.add", SFP, RNE, x, two))))
			return one(w)
		}
		// flag remopaque: the remainder is left uninterpreted (nothing about its value is used by the contract;
		// fp.rem costs the solvers minutes per occurrence even when it is irrelevant to the goal)
		if c.fp && !(c.contract != nil && c.contract.Flags["remopaque"] != "") {
			return one(App("fp.rem", SFP, T(0), T(1)))
		}
		return one(UFApp("umath.Remainder", SFP, T(0), T(1)))
	case "math.Copysign":
		x, y := T(0), T(1)
		ax := App("fp.abs", SFP, x)
		return one(Ite(App("fp.isNegative", SBool, y), App("fp.neg", SFP, ax), ax))
	case "errors.New", "fmt.Errorf":
		r := FreshVar("err", SIface)
		c.assume(Not(Eq(DataField_(r, 0), BVLit(0, 32))))
		fr.ghostOr("ghost:errRaised", TTrue)
		return one(r)
	case "fmt.Sprintf", "fmt.Sprint", "strconv.Itoa", "strconv.FormatUint", "strconv.FormatInt", "strings.Repeat", "strings.TrimRight", "strings.ToLower":
		r := FreshVar("str", SSlice)
		c.assume(sliceWF(r))
		return one(r)
	case "sort.Search":
		return fr.sortSearch(args, pos)
	case "sort.Sort", "sort.Slice", "sort.SliceStable", "sort.Stable":
		return fr.sortHavoc(name, fn, args, pos)
	case "(*sync.RWMutex).Lock", "(*sync.Mutex).Lock":
		return fr.lockOp(args, true, pos)
	case "(*sync.RWMutex).Unlock", "(*sync.Mutex).Unlock":
		return fr.lockOp(args, false, pos)
	case "(*sync.RWMutex).RLock", "(*sync.RWMutex).RUnlock":
		return Val{}, true
	case "sync/atomic.LoadInt32", "sync/atomic.StoreInt32":
		if name == "sync/atomic.LoadInt32" {
			return fr.load(args[0], types.Typ[types.Int32], pos, true), true
		}
		fr.store(args[0], types.Typ[types.Int32], T(1), pos, true)
		return Val{}, true
	}
	if strings.HasPrefix(name, "math.") && fn.Signature.Results().Len() == 1 {
		// remaining math functions: deterministic uninterpreted
		var ts []*Term
		for i := range args {
			ts = append(ts, T(i))
		}
		return one(UFApp("u"+name, sortOf(fn.Signature.Results().At(0).Type()), ts...))
	}
	if v, ok := fr.ioModel(name, fn, args, pos, resType); ok {
		return v, true
	}
	return Val{}, false
}

// sort.Search(n, f): binary search postcondition that holds for any predicate:
// 0 <= r <= n, (r < n => f(r)), (r > 0 => !f(r-1)).  n >= 0 required for the loop to be well-defined.
func (fr *Frame) sortSearch(args []Val, pos token.Pos) (Val, bool) {
	c := fr.ctx
	n := args[0].T
	clo := args[1].Clo
	if clo == nil {
		unsupported("sort.Search with dynamic predicate")
	}
	r := FreshVar("search", SInt)
	nn := Ite(BVCmp("bvslt", n, BVLit(0, 64)), BVLit(0, 64), n)
	c.assume(Implies(fr.abs(), And(BVCmp("bvsle", BVLit(0, 64), r), BVCmp("bvsle", r, nn))))
	call := func(x *Term) *Term {
		res, _, _ := c.runFunc(clo.Fn, []Val{{T: x}}, clo.Bindings, fr.cur.clone(), fr.abs(), fr, frameOpts{spec: true})
		return res[0].T
	}
	c.assume(Implies(And(fr.abs(), BVCmp("bvslt", r, nn)), call(r)))
	rm1 := BV("bvsub", r, BVLit(1, 64))
	c.assume(Implies(And(fr.abs(), BVCmp("bvsgt", r, BVLit(0, 64))), Not(call(rm1))))
	// the predicate is called with indices in [0,n): its panics are obligations at a symbolic index
	if !fr.spec {
		k := FreshVar("search_probe", SInt)
		saved := fr.curReach
		fr.curReach = And(fr.curReach, BVCmp("bvsle", BVLit(0, 64), k), BVCmp("bvslt", k, nn))
		c.runFunc(clo.Fn, []Val{{T: k}}, clo.Bindings, fr.cur.clone(), fr.abs(), fr, frameOpts{prefix: "sort.Search.pred"})
		fr.curReach = saved
	}
	return Val{T: r}, true
}

func (fr *Frame) sortHavoc(name string, fn *ssa.Function, args []Val, pos token.Pos) (Val, bool) {
	c := fr.ctx
	c.opaque[name]++
	c.note(name + ": elements permuted (modelled as havoc of the slice contents; sortedness assumed only where a contract states it)")
	a := args[0]
	// sort.Slice(x any, less): x is an interface holding a slice; sort.Sort(data Interface)
	var sl *Term
	var et types.Type
	if a.Dyn != nil && a.DynV != nil {
		if st, ok := a.Dyn.Underlying().(*types.Slice); ok {
			sl = a.DynV.T
			et = st.Elem()
		}
	}
	if sl == nil {
		fr.havocReachable(fn, args)
		return Val{}, true
	}
	elemHavocInners(fr.cur, elemKey(et), sortOf(et), DataField_(sl, 0), "sorted")
	return Val{}, true
}

// Ghost lock: the mutex word is modelled as the memory location itself: 0 = free, 1 = held.
func (fr *Frame) lockOp(args []Val, lock bool, pos token.Pos) (Val, bool) {
	c := fr.ctx
	// the mutex word lives in memory like any other field: 0 = free, non-zero = held
	// (a freshly allocated mutex is zero = unlocked; frames and havoc apply to it as to every field)
	mt := fnParamElem(args[0])
	if mt == nil {
		c.note("lock on unknown mutex ignored")
		return Val{}, true
	}
	cur := fr.load(args[0], mt, pos, true).T
	held := Not(Eq(cur, zeroOfSort(cur.S)))
	if lock {
		c.oblige(fr, "lock-not-held", "Lock", Not(held), pos)
		fr.store(args[0], mt, BVLit(1, cur.S.W), pos, false)
	} else {
		c.oblige(fr, "unlock-held", "Unlock", held, pos)
		fr.store(args[0], mt, zeroOfSort(cur.S), pos, false)
	}
	return Val{}, true
}

// fnParamElem: the pointee type of a pointer value that is an address of a field (mutexes).
func fnParamElem(v Val) types.Type {
	if v.Ptr == nil {
		return nil
	}
	p := v.Ptr
	t := p.Obj
	for _, e := range p.Path {
		switch u := t.Underlying().(type) {
		case *types.Struct:
			if e.Field < 0 {
				return nil
			}
			t = u.Field(e.Field).Type()
		case *types.Array:
			t = u.Elem()
		default:
			return nil
		}
	}
	if p.Root == RootElem && len(p.Path) == 0 {
		return p.Elem
	}
	return t
}

func ptrKey(p *PtrVal) string {
	var sb strings.Builder
	switch p.Root {
	case RootObj:
		fmt.Fprintf(&sb, "obj%d", p.Ref.ID)
	case RootCell:
		fmt.Fprintf(&sb, "cell%d", p.Cell)
	case RootGlobal:
		sb.WriteString(globalKey(p.Glob))
	}
	for _, e := range p.Path {
		fmt.Fprintf(&sb, ".%d", e.Field)
	}
	return sb.String()
}
