#!/usr/bin/env python3
# Refreshes the units/obligations columns of the table in DESIGN.md section 8.2 from the evidence files of the last runs.
import json,re,glob
full=open('/verif/DESIGN.md').read()
cut=full.index('## 8. As built')
head,c=full[:cut],full[cut:]
for f in sorted(glob.glob('/verif/evidence/C*.json')):
    e=json.load(open(f)); p=e['property_id']; cov=e['coverage']
    units=len(cov.get('functions_under_contract',[])); obl=cov.get('obligations',0)
    extra=''
    if cov.get('bounded_checks'): extra=' (+%d bounded)'%len(cov['bounded_checks'])
    if cov.get('known_findings'): extra+=' (+%d known finding)'%len(cov['known_findings'])
    c,n=re.subn(r'^\| %s \| [^|]* \| [^|]* \|'%p, '| %s | %d%s | %d |'%(p,units,extra,obl), c, flags=re.M)
open('/verif/DESIGN.md','w').write(head+c)
