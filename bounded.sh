#!/bin/bash
# usage: bounded.sh <Cxx> <tier> <evidence file>
# Runs the bounded stand-in checks of a property (tests under bounded/<Cxx>/) against /repo's working tree through a
# build overlay (nothing is written to /repo), appends their coverage to the evidence file, and reports violations.
cd "$(dirname "$0")"
P="$1"; TIER="$2"; EV="$3"; REPO="${VC_REPO:-/repo}"
[ -d "bounded/$P" ] || exit 0
HERE="$(pwd)"
W="$HERE/.work/bounded_$P"; rm -rf "$W"; mkdir -p "$W" "$HERE/replay/$P"
python3 - "$HERE/bounded/$P" "$W/overlay.json" "$REPO" <<'PY'
import json,sys,os
src,out,repo=sys.argv[1:4]
rep={}
for f in os.listdir(src):
    if f.endswith('_test.go'):
        rep[repo+'/s2/'+f]=os.path.join(src,f)
json.dump({"Replace":rep},open(out,'w'))
PY
OUT="$W/out.txt"
(cd "$REPO" && VERIF_TIER="$TIER" GOFLAGS= go test -overlay "$W/overlay.json" -tags=verif -vet=off -count=1 -timeout 600s -v -run 'TestVCBounded' ./s2 > "$OUT" 2>&1)
RC=$?
grep "^BOUNDED" "$OUT"
python3 - "$OUT" "$EV" "$P" "$TIER" <<'PY'
import json,sys,re
out,ev,prop,tier=sys.argv[1:5]
txt=open(out).read()
checks=[]
for m in re.finditer(r'^BOUNDED function=(\S+) evaluations=(\d+) distinct_nontrivial=(\d+) failures=(\d+)',txt,re.M):
    checks.append({"function":m.group(1),"label":"bounded (exhaustive over the stated menu; NOT counted as proved)","evaluations":int(m.group(2)),"distinct_nontrivial":int(m.group(3)),"failures":int(m.group(4)),
                   "bound":"see bounded/%s/*_test.go header: every index built from the per-face cell menu"%prop,"exhaustive_within_bound":True})
try:
    e=json.load(open(ev))
except Exception:
    sys.exit(0)
e.setdefault('coverage',{})['bounded_checks']=checks
json.dump(e,open(ev,'w'),indent=1)
PY
if [ $RC -ne 0 ] || ! grep -q "^BOUNDED function" "$OUT"; then
  R="$HERE/replay/$P/bounded.txt"
  { echo "bounded check of property $P failed (tier $TIER); output of the real code under go test:"; grep "BOUNDED\|FAIL\|panic" "$OUT" | head -20; } > "$R"
  if grep -q "^BOUNDED-FAIL" "$OUT"; then
    echo "VIOLATION property=$P replay=$R"
  else
    echo "bounded harness did not run to completion (build or panic); see $OUT"; tail -5 "$OUT"
    echo "VIOLATION property=$P replay=$R no-failing-input-found"
  fi
  exit 1
fi
exit 0
