#!/bin/bash
# usage: seedcheck.sh <seed dir with patch.diff demo_test.go meta.json> <prop> [pkgdir=s2]
# confirms the seeded change (suite passes, demo fails with / passes without) and runs the property's check on it.
D="$1"; P="$2"; PKG="${3:-s2}"
SCR=$(mktemp -d /tmp/vcseed.XXXXXX)
trap 'rm -rf "$SCR"' EXIT
mkdir -p $SCR/repo; (cd /repo && git archive HEAD) | tar -x -C $SCR/repo
(cd /verif/contracts && find . -name 'vc_*_verif.go' | while read f; do cp $f $SCR/repo/$f; done)
cd $SCR/repo
cp "$D/demo_test.go" $PKG/zz_seed_demo_test.go
base=$(go test -vet=off -count=1 -timeout 120s -run TestSeedDemo ./$PKG 2>&1 | tail -1)
if ! patch -p1 -s < "$D/patch.diff"; then echo "SEED $D: patch does not apply"; exit 2; fi
withp=$(go test -vet=off -count=1 -timeout 120s -run TestSeedDemo ./$PKG 2>&1 | tail -1)
rm -f $PKG/zz_seed_demo_test.go
suite=$(go test -vet=off -count=1 ./... 2>&1 | grep -c "^ok")
fails=$(go test -vet=off -count=1 ./... 2>&1 | grep -c "^FAIL\|^---")
echo "SEED $D: demo-without-change: $base | demo-with-change: $withp | suite ok-packages=$suite fail-lines=$fails"
out=$(cd /verif && ./bin/govc -repo $SCR/repo -mirror /verif/contracts -prop "$P" -tier ${TIER:-quick} -out $SCR/work -known /verif/known_findings.txt -replaydir $SCR/replay -noreplay 2>&1)
echo "$out" | grep "obligation\|ENGINE-ERROR\|UNDECIDED\|LOAD" | cut -c1-220 | head -8
echo "$out" | tail -1
if [ -d "/verif/bounded/$P" ]; then (cd /verif && VC_REPO="$SCR/repo" ./bounded.sh "$P" "${TIER:-quick}" /dev/null 2>&1 | head -3 | cut -c1-250); fi
